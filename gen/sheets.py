"""Abstract stylesheets, their renderings and their expected projections (DESIGN 5.1).

An abstract sheet is a plain tree of tuples built by Gen; `render(sheet, style, rng)` writes it as CSS text under
independently switchable spelling styles; `expected(sheet, ...)` computes, from the abstract tree only, the
spelling-invariant projection that models/projection.py must obtain from the parsed DOM.

Statements   ('charset', enc) ('import', href, form, media|None, name|None) ('namespace', prefix|None, uri)
             ('style', [selector], [item]) ('media', [query], [stmt]) ('page', name|None, pseudo|None, [item], [(box, [item])])
             ('fontface', [item]) ('unknown', keyword, [prelude token], block|None) ('comment', text)
Items        ('decl', name, [comp], [sep], important) ('comment', text)
Components   ('ident', s) ('num', sign, int, frac, unit) ('string', s) ('url', s) ('hash', hex) ('colorkw', s)
             ('rgb', r, g, b) ('rgba', r, g, b, a) ('func', name, [comp], [sep]) ('calc', comp, op, comp) ('urange', s)
Selectors    [compound, comb, compound, ...]; compound = (typesel|None, [part]); typesel = (nsprefix, name) with nsprefix None (no
             prefix written), '*' , '' (written '|name') or a declared prefix; name '*' = universal
Parts        ('id', s) ('class', s) ('attr', nsprefix|None, name, op|None, value|None, quoted) ('pc', name) ('pcf', name, argtext, argtokens)
             ('pe', name, colons) ('not', part-or-typesel)
Queries      (modifier|None, mediatype|None, [(feature, comp|None)])
"""

from fractions import Fraction

MEDIA_TYPES = ['all', 'braille', 'embossed', 'handheld', 'print', 'projection', 'screen', 'speech', 'tty', 'tv']
LENGTH_UNITS = ['px', 'em', 'ex', 'cm', 'mm', 'in', 'pt', 'pc']
OTHER_UNITS = ['deg', 'rad', 's', 'ms', 'hz', 'khz', '%']
ELEMENTS = ['a', 'b', 'div', 'p', 'span', 'h1', 'li', 'ul', 'td', 'em', 'e1', 'body']
NAMES = ['nav', 'x1', 'main', 'c', 'item-2', '_u', 'k9', 'foo', 'bar', 'zed']
CSS21_COLORS = {
    'aqua': (0, 255, 255), 'black': (0, 0, 0), 'blue': (0, 0, 255), 'fuchsia': (255, 0, 255), 'gray': (128, 128, 128), 'green': (0, 128, 0),
    'lime': (0, 255, 0), 'maroon': (128, 0, 0), 'navy': (0, 0, 128), 'olive': (128, 128, 0), 'orange': (255, 165, 0), 'purple': (128, 0, 128),
    'red': (255, 0, 0), 'silver': (192, 192, 192), 'teal': (0, 128, 128), 'white': (255, 255, 255), 'yellow': (255, 255, 0),
}  # fmt: skip
KEYWORDS = ['inherit', 'none', 'auto', 'bold', 'solid', 'block', 'left', 'normal', 'serif', 'x-large', 'thin', 'center', 'zq']
PROPERTIES = ['color', 'margin', 'margin-top', 'border', 'background', 'font', 'font-family', 'content', 'width', 'top', 'display',
              'background-image', 'line-height', 'z-index', 'x-foo', 'padding-left', 'border-color', 'text-align', 'quotes', 'cursor']  # fmt: skip
PSEUDO_CLASSES = ['hover', 'first-child', 'link', 'visited', 'active', 'focus', 'last-child', 'root', 'empty', 'checked']
PSEUDO_FUNCS = ['nth-child', 'nth-last-child', 'nth-of-type', 'lang']
PSEUDO_ELEMENTS = ['before', 'after', 'first-line', 'first-letter']
MARGIN_BOXES = ['@top-left', '@top-center', '@top-right', '@bottom-left', '@bottom-center', '@left-top', '@right-bottom', '@top-left-corner']
ATTR_OPS = ['=', '~=', '|=', '^=', '$=', '*=']
NEUTRAL_STR = 'abcxyz ABC 0123456789.,:;!?#$%&*+-/<=>@[]^_`{|}~'
HOSTILE_STR = NEUTRAL_STR + '"\'\\()\n\t'


class Gen:
    """generator of abstract sheets; `hostile` widens content alphabets (strings/urls/comments)"""

    def __init__(self, rng, hostile=False, namespaces=True, max_stmts=6, nonascii=False, hostile_class=None):
        self.r = rng
        self.hostile = hostile
        # one class of hostile content per sheet keeps known-finding attribution precise:
        # 'string' (quotes, parentheses, tab), 'string-backslash', 'string-newline', 'url', 'comment', 'ident', 'nonascii'
        self.hc = hostile_class
        self.use_ns = namespaces
        self.max_stmts = max_stmts
        self.nonascii = nonascii
        self.prefixes = {}  # prefix -> uri (declared)
        self.default_ns = None

    # ---- content --------------------------------------------------------------------------------------
    def text(self, maxlen=8):
        pool = list(HOSTILE_STR if self.hostile else NEUTRAL_STR)
        if self.hc == 'string':
            pool += list('"\'()\t"\'') * 2
        elif self.hc == 'string-backslash':
            pool += ['\\'] * 12 + list('af09 ')
        elif self.hc == 'string-newline':
            pool += ['\n', '\n', '\r', '\f'] * 3
        pool += ['é', 'Ж', '中', '\U0001f600'] if self.nonascii or self.hostile or self.hc == 'nonascii' else []
        return ''.join(self.r.choice(pool) for _ in range(self.r.randint(0, maxlen)))

    def name(self, pool):
        """an identifier: from the neutral pool, or one that needs escapes when written (hostile class 'ident')"""
        if self.hc == 'ident' and self.r.random() < 0.4:
            return self.r.choice(['1a', '9', 'a.b', 'a:b', 'a b', '-1x', 'x/y', 'a(b', 'a"b', "a'b", 'a~', '@a', '#a', 'a,b', 'a;b', 'a{b', 'a\\b', 'a\nb', 'a\x01b', '--', 'a!'])
        if self.hc == 'nonascii' and self.r.random() < 0.4:
            return self.r.choice(['é', 'Жя', '中文', 'ü-x', 'a\u00a0b', '\U0001f600'])
        return self.r.choice(pool)

    def comment_text(self):
        pool = list('abc xyz 123 {};:,.@#!"\'()[]') + (['\n', '*', '/', '\\', 'é'] if self.hostile or self.hc == 'comment' else [])
        if self.hc == 'comment':
            pool += ['\n', '\n  ', '\\', '\\41 ', '*', '/ *']
        t = ''.join(self.r.choice(pool) for _ in range(self.r.randint(0, 8)))
        return t.replace('*/', '* /')

    def urltext(self):
        r = self.r
        base = r.choice(['a.png', 'img/b.gif', '../c.jpg', 'http://h.example/d/e.css', '/abs/f.png', 'x', 'data:image/png;base64,AAAA', 'q?v=1#frag'])
        if (self.hostile or self.hc == 'url') and r.random() < 0.5:
            base += r.choice([' sp', '(p)', "'q", '"d', ',c', 'é', ';s', ' ', ')', '('])
        if self.hc == 'url-backslash' and r.random() < 0.6:
            base += r.choice(['\\b', '\\44', '\\'])
        if self.hc == 'url-control' and r.random() < 0.7:
            # control characters and nothing else that forces quotes (CR and FF are white space in CSS just like LF and TAB)
            c = r.choice(['\r', '\f', '\n', '\t', '\x0b', '\x01', '\x7f', '\xa0', '\u2003', '\u2028', '\u3000', '\x85', '\u200b', '\ufeff'])
            base = r.choice([c + 'ab.png', 'a' + c + 'b.png', 'ab.png' + c, 'img/' + c + c + 'x.gif'])
        return base

    # ---- components -----------------------------------------------------------------------------------
    def num(self, units=None, allow_sign=True):
        r = self.r
        sign = r.choice(['', '', '', '-', '+']) if allow_sign else ''
        ip = r.choice(['0', '1', '2', '10', '12', '100', '7', ''])
        fp = r.choice(['', '', '', '5', '25', '05', '125', '50'])
        if not ip and not fp:
            ip = '3'
        unit = r.choice(units if units is not None else LENGTH_UNITS + OTHER_UNITS + ['', '', ''])
        return ('num', sign, ip, fp, unit)

    def comp(self, depth=0):
        r = self.r
        k = r.random()
        if k < 0.22:
            return ('ident', self.name(KEYWORDS))
        if k < 0.45:
            return self.num()
        if k < 0.55:
            return ('string', self.text())
        if k < 0.63:
            return ('url', self.urltext())
        if k < 0.70:
            n = r.choice([3, 6])
            return ('hash', ''.join(r.choice('0123456789abcdef') for _ in range(n)))
        if k < 0.76:
            return ('colorkw', r.choice(sorted(CSS21_COLORS)))
        if k < 0.81:
            return ('rgb', r.randint(0, 255), r.randint(0, 255), r.randint(0, 255))
        if k < 0.84:
            return ('rgba', r.randint(0, 255), r.randint(0, 255), r.randint(0, 255), r.choice(['0', '1', '0.5', '0.25']))
        if k < 0.93 and depth < 2:
            n = r.randint(1, 3)
            args = [self.arg(depth + 1) for _ in range(n)]
            seps = [r.choice([',', ',', ' ']) for _ in range(n - 1)]
            return ('func', r.choice(['f', 'counter', 'attr', 'local', 'format', 'steps', 'zq-fn']), args, seps)
        if k < 0.97:
            return ('calc', self.num(LENGTH_UNITS + ['%', '']), r.choice(['+', '-', '*', '/']), self.num(LENGTH_UNITS + ['%', ''], allow_sign=False))
        return ('urange', r.choice(['U+0-7F', 'U+4??', 'U+1F600', 'U+00A0-00FF', 'U+F']))

    def arg(self, depth):
        r = self.r
        k = r.random()
        if k < 0.4:
            return ('ident', r.choice(KEYWORDS + NAMES))
        if k < 0.7:
            return self.num()
        if k < 0.85:
            return ('string', self.text(5))
        if depth < 2:
            return ('func', 'g', [('ident', r.choice(NAMES))], [])
        return ('ident', 'z')

    def decl(self, names=None):
        r = self.r
        n = r.choice([1, 1, 1, 2, 2, 3, 4])
        comps = [self.comp() for _ in range(n)]
        seps = [r.choice([' ', ' ', ' ', ',', '/']) for _ in range(n - 1)]
        return ('decl', r.choice(names or PROPERTIES), comps, seps, r.random() < 0.2)

    def items(self, maxn=4, names=None, comments=True):
        out = []
        for _ in range(self.r.randint(0, maxn)):
            if comments and self.r.random() < 0.15:
                out.append(('comment', self.comment_text()))
            else:
                out.append(self.decl(names))
        return out

    # ---- selectors ------------------------------------------------------------------------------------
    def nsprefix(self, for_attr=False):
        r = self.r
        if not self.use_ns or r.random() < 0.75:
            return None
        opts = ['*', ''] + sorted(self.prefixes)
        if for_attr:
            opts = [''] + sorted(self.prefixes) + ['*']
        return r.choice(opts)

    def typesel(self):
        r = self.r
        name = '*' if r.random() < 0.15 else self.name(ELEMENTS)
        return (self.nsprefix(), name)

    def part(self, allow_not=True):
        r = self.r
        k = r.random()
        if k < 0.25:
            return ('class', self.name(NAMES))
        if k < 0.4:
            return ('id', self.name(NAMES))
        if k < 0.6:
            op = r.choice(ATTR_OPS + [None, None])
            val = None
            quoted = False
            if op:
                quoted = r.random() < 0.6
                val = self.text(5) if quoted else self.name(NAMES)
            return ('attr', self.nsprefix(for_attr=True) if r.random() < 0.3 else None, r.choice(['href', 'title', 'lang', 'data-x', 'type']), op, val, quoted)
        if k < 0.72:
            return ('pc', r.choice(PSEUDO_CLASSES))
        if k < 0.82:
            name = r.choice(PSEUDO_FUNCS)
            if name == 'lang':
                return ('pcf', name, r.choice(['de', 'en', 'fr-ca']))
            a = r.choice(['2n+1', '2n', 'odd', 'even', '3', '-n+3', 'n', '2n-1'])
            return ('pcf', name, a)
        if k < 0.9:
            return ('pe', r.choice(PSEUDO_ELEMENTS), r.choice([1, 2]))
        if allow_not:
            inner = self.typesel() if r.random() < 0.3 else self.part(allow_not=False)
            if inner[0] == 'pe':
                inner = ('class', 'k')
            if inner[0] == 'pcf' and r.random() > 0.08:
                inner = ('pc', r.choice(PSEUDO_CLASSES))  # functional pseudo inside :not() is a known finding: kept rare
            return ('not', inner)
        return ('class', 'nn')

    def compound(self):
        r = self.r
        ts = self.typesel() if r.random() < 0.7 else None
        parts = [self.part() for _ in range(r.randint(0 if ts else 1, 3))]
        # a pseudo-element must come last in its compound
        pes = [p for p in parts if p[0] == 'pe']
        parts = [p for p in parts if p[0] != 'pe'] + pes[:1]
        return (ts, parts)

    def selector(self):
        r = self.r
        out = [self.compound()]
        for _ in range(r.choice([0, 0, 1, 1, 2, 3])):
            # a pseudo-element only in the last compound
            last = out[-1]
            out[-1] = (last[0], [p for p in last[1] if p[0] != 'pe'] or ([('class', 'q')] if last[0] is None else []))
            out.append(r.choice([' ', ' ', '>', '+', '~']))
            out.append(self.compound())
        return out

    # ---- media ----------------------------------------------------------------------------------------
    def query(self):
        r = self.r
        k = r.random()
        feats = []

        def feature():
            f = r.choice(['min-width', 'max-width', 'width', 'min-height', 'color', 'min-color', 'orientation', 'max-resolution', 'monochrome'])
            if f in ('color', 'monochrome') and r.random() < 0.5:
                return (f, None)
            if f == 'orientation':
                return (f, ('ident', r.choice(['portrait', 'landscape'])))
            if f in ('min-color', 'color', 'monochrome'):
                return (f, ('num', '', str(r.randint(1, 8)), '', ''))
            if f == 'max-resolution':
                return (f, ('num', '', str(r.choice([72, 96, 300])), '', 'dpi'))
            return (f, ('num', '', str(r.randint(1, 900)), '', r.choice(['px', 'em'])))

        if k < 0.45:
            return (None, r.choice(MEDIA_TYPES[1:]), [])
        if k < 0.8:
            return (r.choice([None, None, 'not', 'only']), r.choice(MEDIA_TYPES[1:]), [feature() for _ in range(r.randint(0, 3))])
        return (None, None, [feature() for _ in range(r.randint(1, 2))])

    def queries(self):
        r = self.r
        qs = [self.query() for _ in range(r.choice([1, 1, 2, 3]))]
        # simple duplicates are canonicalised away by design (C17): do not generate them here
        seen = set()
        out = []
        for q in qs:
            key = q[1] if (q[0] is None and not q[2]) else None
            if key is not None and key in seen:
                continue
            if key is not None:
                seen.add(key)
            out.append(q)
        simple = [q for q in out if q[0] is None and not q[2] and q[1]]
        if simple and r.random() < 0.12:
            # a plain medium named a second time (in whatever letter case it is written then): the parser keeps the first and drops the rest
            out.append(r.choice(simple))
            self.repeated_medium = True
        return out

    # ---- statements -----------------------------------------------------------------------------------
    def stmt_style(self):
        r = self.r
        sels = [self.selector() for _ in range(r.choice([1, 1, 1, 2, 3]))]
        items = self.items()
        if not any(i[0] == 'decl' for i in items):
            items.append(self.decl())  # empty rules are dropped by the default serializer preference (C06's business)
        return ('style', sels, items)

    def stmt_media(self, depth=0):
        r = self.r
        body = []
        for _ in range(r.randint(1, 3)):
            k = r.random()
            if k < 0.7:
                body.append(self.stmt_style())
            elif k < 0.8:
                body.append(('comment', self.comment_text()))
            elif k < 0.9 and depth < 1:
                body.append(self.stmt_media(depth + 1))
            else:
                body.append(self.stmt_unknown())
        if not any(s[0] in ('style', 'media') for s in body):
            body.append(self.stmt_style())
        return ('media', self.queries(), body)

    def stmt_page(self):
        r = self.r
        names = r.sample(MARGIN_BOXES, r.choice([0, 0, 1, 2]))  # one box of each kind: a second one is merged into the first by design
        boxes = [(b, self.items(2, ['content', 'color', 'margin'], comments=False) or [self.decl(['content'])]) for b in names]
        return ('page', r.choice([None, None, 'foo']), r.choice([None, 'first', 'left', 'right']), self.items(3, ['margin', 'margin-top', 'size', 'padding-left'], comments=False), boxes)

    def stmt_unknown(self):
        r = self.r
        kw = r.choice(['@x', '@foo-bar', '@three-dee', '@zq'])
        if self.hc == 'unknown-keyword':
            # at-keywords that are not what they resemble: '@charset' is reserved in exactly that spelling, any other letter case is an unknown rule
            kw = r.choice(['@Charset', '@CHARSET', '@cHARSET', '@FOO', '@Foo-Bar', '@x-Y'])
        prelude = [r.choice([('ident', 'y'), ('num', '', '1', '', 'px'), ('string', 'st'), ('ident', 'print')]) for _ in range(r.randint(0, 2))]
        block = None
        if r.random() < 0.6:
            block = r.choice(['', 'a{b:c}', 'z:1', 'k [1] (2)'])
        return ('unknown', kw, prelude, block)

    def sheet(self):
        r = self.r
        out = []
        self.prefixes = {}
        self.default_ns = None
        if r.random() < 0.15:
            out.append(('charset', r.choice(['utf-8', 'iso-8859-1', 'ascii', 'UTF-8'])))
        for _ in range(r.choice([0, 0, 0, 1, 2])):
            if r.random() < 0.2:
                out.append(('comment', self.comment_text()))
            media = self.queries() if r.random() < 0.4 else None
            if media and media[0][1] is None and r.random() > 0.08:
                first = r.choice([m for m in MEDIA_TYPES[1:] if not any(q[1] == m and q[0] is None and not q[2] for q in media)])
                media = [(None, first, [])] + media  # '(' first in @import is a known finding: kept rare
            out.append(('import', r.choice(['a.css', 'sub/b.css', 'http://h.example/c.css', 'd e.css']), r.choice(['string', 'url']), media, None))
        if self.use_ns:
            for _ in range(r.choice([0, 0, 1, 2, 3])):
                if r.random() < 0.25 and self.default_ns is None:
                    self.default_ns = r.choice(['http://d.example/ns', 'urn:d'])
                    out.append(('namespace', None, self.default_ns))
                else:
                    p = r.choice(['p', 'q', 'svg', 'x'])
                    if p in self.prefixes:
                        continue
                    uri = r.choice(['http://p.example/1', 'urn:two', 'http://www.w3.org/2000/svg', 'u4'])
                    if uri in self.prefixes.values() or uri == self.default_ns:
                        continue
                    self.prefixes[p] = uri
                    out.append(('namespace', p, uri))
        n = r.randint(1, self.max_stmts)
        for _ in range(n):
            k = r.random()
            if k < 0.55:
                out.append(self.stmt_style())
            elif k < 0.67:
                out.append(self.stmt_media())
            elif k < 0.75:
                out.append(self.stmt_page())
            elif k < 0.81:
                out.append(('fontface', self.items(3, ['font-family', 'src', 'font-weight', 'font-style'], comments=False) or [self.decl(['font-family'])]))
            elif k < 0.9:
                out.append(('comment', self.comment_text()))
            else:
                out.append(self.stmt_unknown())
        if self.hc == 'unknown-keyword':
            out.insert(r.randint(len(out) - n, len(out)), self.stmt_unknown())
        return out


# =====================================================================================================
# rendering
# =====================================================================================================
NEUTRAL_STYLE = {'ws': 'normal', 'comments': False, 'case': False, 'quotes': '"', 'escapes': False, 'numspell': False, 'semicolons': True}
STYLE_AXES = ['ws', 'comments', 'case', 'quotes', 'escapes', 'numspell', 'semicolons']


def style_with(axis, rng=None):
    s = dict(NEUTRAL_STYLE)
    if axis == 'ws':
        s['ws'] = 'wild'
    elif axis == 'ws-min':
        s['ws'] = 'min'
    elif axis == 'comments':
        s['comments'] = True
    elif axis == 'case':
        s['case'] = True
    elif axis == 'quotes':
        s['quotes'] = "'"
    elif axis == 'escapes':
        s['escapes'] = True
    elif axis == 'numspell':
        s['numspell'] = True
    elif axis == 'semicolons':
        s['semicolons'] = False
    elif axis == 'all':
        s.update(ws='wild', comments=True, case=True, quotes='mixed', escapes=True, numspell=True, semicolons=False)
    return s


class Renderer:
    def __init__(self, style, rng):
        self.s = style
        self.r = rng
        self.feats = set()  # hostile constructs actually emitted (known findings are keyed on them)
        # namespace prefixes written with escapes are a known finding (prefix lookup is literal): kept rare
        self.escape_prefixes = bool(style['escapes']) and rng.random() < 0.06

    # -- white space / comments at token boundaries
    def o(self):
        """optional white space"""
        ws = self.s['ws']
        out = ''
        if ws == 'wild':
            out = self.r.choice(['', ' ', '\n', '\t', '  ', '\r\n', ' \f '])
        elif ws == 'normal':
            out = ''
        if self.s['comments'] and self.r.random() < 0.25:
            out += '/*' + self.r.choice(['', 'c', ' k ', '*', '{', ';']) + '*/' + (self.r.choice(['', ' ']) if ws != 'min' else '')
        return out

    def tc(self, tag):
        """a comment where no white space may stand (inside a qualified name, inside a page selector): CSS drops comments before it parses"""
        if self.s['comments'] and self.r.random() < 0.12:
            # (no feature tag: no recorded finding is keyed on these; both defects found with them are repaired, KF-C02-10 / KF-C03-09)
            return '/*' + self.r.choice(['', 't', '|', ':']) + '*/'
        return ''

    def ows(self):
        """optional white space where a comment would be a block-level item of its own (after '{' or ';', before '}')"""
        if self.s['ws'] == 'wild':
            return self.r.choice(['', ' ', '\n', '\t', '  ', '\r\n', ' \f '])
        return ''

    def req(self):
        """required white space"""
        ws = self.s['ws']
        out = ' '
        if ws == 'wild':
            out = self.r.choice([' ', '\n', '\t', '  ', '\r\n', ' \n '])
        if self.s['comments'] and self.r.random() < 0.2:
            out += '/*w*/' + self.r.choice(['', ' '])
        return out

    def nl(self):
        ws = self.s['ws']
        if ws == 'min':
            return ''
        if ws == 'wild':
            return self.r.choice(['', '\n', ' ', '\n\n', '\r\n\t'])
        return '\n'

    # -- spellings
    def kw(self, text):
        """a case-insensitive keyword (at-keyword, property name, unit, function name, pseudo name ...)"""
        if self.s['case']:
            r = self.r.random()
            if r < 0.4:
                text = text.upper()
            elif r < 0.8:
                text = ''.join(c.upper() if self.r.random() < 0.5 else c for c in text)
        return text

    def urlname(self):
        """the function name of url(...): any letter case; with the 'escapes' style also written with escapes, like every identifier may be"""
        t = self.kw('url')
        if self.s['escapes'] and self.r.random() < 0.25:
            i = self.r.randrange(3)
            if self.r.random() < 0.5:
                return t[:i] + '\\' + t[i:]  # (u, r, l are no hex digits: a simple escape)
            return t[:i] + '\\%x ' % ord(t[i]) + t[i + 1:]
        return t

    def name(self, text, first=True):
        """an identifier: characters that are not name characters are always written as hex escapes; with the
        'escapes' style ordinary name characters may be written as escapes too"""
        out = []
        n = len(text)
        alldash = n > 0 and set(text) == {'-'}
        for i, ch in enumerate(text):
            nxt = text[i + 1] if i + 1 < n else ''
            plain = (ch.isalnum() and ord(ch) < 128) or ch in '-_' or ord(ch) >= 0x80
            needs = not plain
            if first and ch.isdigit() and (i == 0 or (i == 1 and text[0] == '-')):
                needs = True  # an identifier cannot start with a digit (or a hyphen and a digit)
            if first and alldash and i == n - 1:
                needs = True  # '-' / '--' alone are no identifiers
            r = self.r.random()
            if needs:
                out.append('\\%x ' % ord(ch))
            elif self.s['escapes'] and r < 0.15 and ch.isalnum() and ord(ch) < 128:
                h = '%x' % ord(ch)
                width = self.r.randint(len(h), 6)
                esc = '\\' + h.rjust(width, '0')
                if width < 6 and (nxt == '' or nxt in '0123456789abcdefABCDEF \t\n') or self.r.random() < 0.3 or width == 6 and nxt in ' \t\n':
                    esc += ' '
                elif nxt == '':
                    esc += ' '
                out.append(esc)
            elif self.s['escapes'] and r < 0.25 and ch in 'ghijklmnopqrstuvwxyzGHIJKLMNOPQRSTUVWXYZ_':
                out.append('\\' + ch)
            else:
                out.append(ch)
        return ''.join(out)

    def prefix(self, p):
        if not self.escape_prefixes:
            return p
        t = self.name(p)
        if t != p:
            self.feats.add('ns-prefix.escaped')
        return t

    def string(self, content):
        q = self.s['quotes']
        if q == 'mixed':
            q = self.r.choice('"\'')
        out = []
        for ch in content:
            if ch == q or ch == '\\':
                out.append('\\' + ch)
            elif ch in '\n\r\f' or (ord(ch) < 32 and ch != '\t') or ord(ch) == 127:
                out.append('\\%x ' % ord(ch))
            elif self.s['escapes'] and self.r.random() < 0.1 and ch.isalpha() and ord(ch) < 128:
                out.append('\\%06x ' % ord(ch))  # always terminated: a following space would be eaten as terminator
            else:
                out.append(ch)
        return q + ''.join(out) + q

    def number(self, c):
        _, sign, ip, fp, unit = c
        if self.s['numspell']:
            r = self.r.random()
            if fp and r < 0.3:
                fp = fp + '0' * self.r.randint(1, 2)
            if ip and ip != '0' and self.r.random() < 0.3:
                ip = '0' * self.r.randint(1, 2) + ip
            if ip == '0' and fp and self.r.random() < 0.4:
                ip = ''
            if ip == '' and fp and self.r.random() < 0.4:
                ip = '0'
            if not fp and self.r.random() < 0.2:
                fp = '0'
        text = sign + ip + ('.' + fp if fp else '')
        u = unit
        if u and u != '%':
            u = self.kw(u)
        return text + u

    def comp(self, c):
        k = c[0]
        if k == 'ident':
            return self.name(c[1]) if not c[1].isalnum() else c[1]
        if k == 'num':
            return self.number(c)
        if k == 'string':
            return self.string(c[1])
        if k == 'url':
            body = c[1]
            plain_ok = body and not any(ch in body for ch in ' \t\n\r\f()\'",\\;') and not any(ord(ch) < 32 or ord(ch) == 127 or (ord(ch) > 127 and not ch.isalnum()) for ch in body)
            if plain_ok and self.s['quotes'] != 'mixed' and self.r.random() < 0.5 or plain_ok and self.s['quotes'] == 'mixed' and self.r.random() < 0.3:
                inner = body
            else:
                inner = self.string(body)
            w = self.r.choice(['', ' ']) if self.s['ws'] == 'wild' else ''
            return self.urlname() + '(' + w + inner + w + ')'
        if k == 'hash':
            h = c[1]
            if self.s['case']:
                h = self.kw(h)
            return '#' + h
        if k == 'colorkw':
            return c[1]
        if k in ('rgb', 'rgba'):
            args = [str(x) for x in c[1:]]
            return self.kw(k) + '(' + self.o() + (self.o() + ',' + self.o()).join(args) + self.o() + ')'
        if k == 'func':
            _, name, args, seps = c
            out = [self.kw(name) + '(' + self.o()]
            for i, a in enumerate(args):
                if i:
                    out.append(self.o() + ',' + self.o() if seps[i - 1] == ',' else self.req())
                out.append(self.comp(a))
            out.append(self.o() + ')')
            return ''.join(out)
        if k == 'calc':
            _, a, op, b = c
            pieces = [self.o(), self.req(), self.req(), self.o()]
            if any('/*' in x for x in pieces) and self.r.random() > 0.05:
                # a comment inside calc() with white space on both sides is a known finding: kept rare
                pieces = [x.split('/*')[0] + (x.rsplit('*/', 1)[1] if '*/' in x else '') for x in pieces]
                pieces[1] = pieces[1] or ' '
                pieces[2] = pieces[2] or ' '
            if any('/*' in x for x in pieces):
                self.feats.add('value.calc.comment-inside')
            return self.kw('calc') + '(' + pieces[0] + self.number(a) + pieces[1] + op + pieces[2] + self.number(b) + pieces[3] + ')'
        if k == 'urange':
            t = c[1]
            return self.kw(t) if self.s['case'] else t
        raise ValueError(k)

    def decl(self, d, last):
        _, name, comps, seps, imp = d
        out = [self.name(self.kw(name)), self.o(), ':', self.o()]
        for i, c in enumerate(comps):
            if i:
                sp = seps[i - 1]
                out.append(self.req() if sp == ' ' else self.o() + sp + self.o())
            out.append(self.comp(c))
        if imp:
            out += [self.o(), '!', self.o() if self.s['ws'] == 'wild' else '', self.kw('important')]
        # no comment directly after the value: it would belong to the declaration (see DESIGN C02)
        text = ''.join(out)
        if self.s['ws'] == 'wild':
            text += self.r.choice(['', ' ', '\n'])
        if not last or self.s['semicolons'] or self.r.random() < 0.3:
            text += ';'
        return text

    def items(self, items, indent='  '):
        out = []
        decls = [i for i, it in enumerate(items) if it[0] == 'decl']
        lastdecl = decls[-1] if decls else -1
        for i, it in enumerate(items):
            if it[0] == 'raw':
                # injected text (C04): placed at a declaration boundary, i.e. after '{' or ';'
                if out and not out[-1].rstrip().endswith((';', '*/')):
                    out[-1] = out[-1].rstrip() + ';'
                out.append(it[1])
                continue
            if it[0] == 'comment':
                # a block-level comment must follow '{' or ';'
                if out and not out[-1].rstrip().endswith((';', '*/')) and any(x[0] == 'decl' for x in items[:i]):
                    out[-1] = out[-1].rstrip() + ';'
                out.append('/*' + it[1] + '*/')
            else:
                last = i == lastdecl and not any(x[0] in ('comment', 'raw') for x in items[i + 1 :])
                out.append(self.decl(it, last))
        sep = self.nl() + (indent if self.s['ws'] == 'normal' else '')
        return sep.join(out)

    # -- selectors
    def typesel(self, ts):
        prefix, name = ts
        n = '*' if name == '*' else self.name(name)
        if prefix is None:
            return n
        if prefix == '*':
            return '*|' + self.tc('qname') + n
        if prefix == '':
            return '|' + self.tc('qname') + n
        return self.prefix(prefix) + '|' + self.tc('qname') + n

    def part(self, p):
        k = p[0]
        if k == 'class':
            return '.' + self.name(p[1])
        if k == 'id':
            return '#' + self.name(p[1], first=False)
        if k == 'attr':
            _, prefix, name, op, val, quoted = p
            w = self.o() if not self.s['comments'] else (self.r.choice(['', ' ']) if self.s['ws'] == 'wild' else '')
            an = self.name(name)
            if prefix is not None:
                an = ('*' if prefix == '*' else self.prefix(prefix)) + '|' + self.tc('qname') + an if prefix != '' else '|' + self.tc('qname') + an
            out = '[' + w + an + w
            if op:
                out += op + w + (self.string(val) if quoted else self.name(val)) + w
            return out + ']'
        if k == 'pc':
            return ':' + self.kw(p[1])
        if k == 'pcf':
            return ':' + self.kw(p[1]) + '(' + p[2] + ')'
        if k == 'pe':
            return ':' * p[2] + self.kw(p[1])
        if k == 'not':
            inner = p[1]
            w = self.r.choice(['', ' ']) if self.s['ws'] == 'wild' else ''
            txt = self.typesel(inner) if len(inner) == 2 and inner[0] not in ('class', 'id', 'pc') else self.part(inner)
            if isinstance(inner, tuple) and len(inner) == 2 and inner[0] in ('class', 'id', 'pc'):
                txt = self.part(inner)
            return ':' + self.kw('not') + '(' + w + txt + w + ')'
        raise ValueError(k)

    def compound(self, c):
        ts, parts = c
        return (self.typesel(ts) if ts else '') + ''.join(self.part(p) for p in parts)

    def selector(self, sel):
        out = []
        for x in sel:
            if isinstance(x, str):
                if x == ' ':
                    if not self.s['comments']:
                        out.append(self.req())
                    else:
                        # a comment beside the blank: followed by more blank ('a /*d*/ b') or glued to what comes next ('a /*g*/b'), glued
                        # to what came before ('a/*h*/ b') - always one descendant combinator
                        k = self.r.random()
                        out.append(' /*d*/ ' if k < 0.15 else ' /*g*/' if k < 0.25 else '/*h*/ ' if k < 0.32 else ' ')
                else:
                    sp = self.r.choice(['', ' ']) if self.s['ws'] != 'normal' else ' '
                    if self.s['ws'] == 'min':
                        sp = ''
                    out.append(sp + x + sp)
            else:
                out.append(self.compound(x))
        return ''.join(out)

    # -- media
    def query(self, q):
        mod, mtype, feats = q
        out = []
        if mod:
            out.append(self.kw(mod))
        if mtype:
            out.append(self.kw(mtype))
        for i, (f, v) in enumerate(feats):
            if out:
                out.append(self.kw('and'))
            e = '(' + self.o() + self.kw(f)
            if v is not None:
                e += self.o() + ':' + self.o() + self.comp(v)
            e += self.o() + ')'
            out.append(e)
        return ' '.join(out)

    def queries(self, qs):
        return (self.o() + ',' + self.o()).join(self.query(q) for q in qs)

    # -- statements
    def block(self, items):
        body = self.items(items)
        if self.s['ws'] == 'min':
            return '{' + body + '}'
        if self.s['ws'] == 'wild':
            return self.o() + '{' + self.ows() + body + self.ows() + '}'
        return ' {\n  ' + body + '\n}'

    def stmt(self, st):
        k = st[0]
        if k == 'raw':
            return st[1]
        if k == 'charset':
            return '@charset "%s";' % st[1]
        if k == 'comment':
            return '/*' + st[1] + '*/'
        if k == 'import':
            _, href, form, media, name = st
            h = self.string(href) if form == 'string' else self.urlname() + '(' + self.string(href) + ')'
            out = self.kw('@import') + self.req() + h
            if media:
                out += self.req() + self.queries(media)
            return out + self.o() + ';'
        if k == 'namespace':
            _, prefix, uri = st
            out = self.kw('@namespace') + self.req()
            if prefix:
                out += self.prefix(prefix) + self.req()
            u = self.string(uri) if self.r.random() < 0.6 else self.urlname() + '(' + self.string(uri) + ')'
            return out + u + self.o() + ';'
        if k == 'style':
            _, sels, items = st
            return (self.o() + ',' + self.o()).join(self.selector(s) for s in sels) + self.block(items)
        if k == 'media':
            _, qs, body = st
            inner = self.nl().join(self.stmt(s) for s in body)
            return self.kw('@media') + self.req() + self.queries(qs) + self.o() + '{' + self.nl() + inner + self.nl() + '}'
        if k == 'page':
            _, name, pseudo, items, boxes = st
            out = self.kw('@page')
            if name or pseudo:
                out += self.req() + (self.name(name) if name else '') + ((self.tc('page-selector') if name else '') + ':' + self.kw(pseudo) if pseudo else '')
            body = self.items(items)
            if body and boxes and not body.rstrip().endswith(';'):
                body += ';'
            for box, bitems in boxes:
                body += self.nl() + self.kw(box) + self.o() + '{' + self.items(bitems) + '}'
            return out + self.o() + '{' + self.ows() + body + self.ows() + '}'
        if k == 'fontface':
            return self.kw('@font-face') + self.block(st[1])
        if k == 'unknown':
            _, kw, prelude, block = st
            out = kw
            for p in prelude:
                out += ' ' + self.comp(p)
            if block is None:
                return out + ';'
            return out + ' {' + block + '}'
        raise ValueError(k)

    def sheet(self, stmts):
        return self.nl().join(self.stmt(s) for s in stmts) + (self.nl() if self.s['ws'] != 'min' else '')


def render(stmts, style, rng):
    return Renderer(style, rng).sheet(stmts)


def render2(stmts, style, rng):
    r = Renderer(style, rng)
    text = r.sheet(stmts)
    return text, r.feats


# =====================================================================================================
# expected projection (computed from the abstract tree only)
# =====================================================================================================
def exp_num(c):
    _, sign, ip, fp, unit = c
    val = Fraction((sign if sign == '-' else '') + (ip or '0') + ('.' + fp if fp else ''))
    u = unit.lower()
    if val == 0 and u in LENGTH_UNITS:
        u = ''
    return ('num', str(val), u)


def exp_comp(c):
    k = c[0]
    if k == 'ident':
        return ('ident', c[1])
    if k == 'num':
        return exp_num(c)
    if k == 'string':
        return ('string', c[1])
    if k == 'url':
        return ('url', c[1])
    if k == 'hash':
        h = c[1].lower()
        if len(h) == 3:
            h = ''.join(x * 2 for x in h)
        return ('color', int(h[0:2], 16), int(h[2:4], 16), int(h[4:6], 16), '1')
    if k == 'colorkw':
        return ('color',) + CSS21_COLORS[c[1]] + ('1',)
    if k == 'rgb':
        return ('color', c[1], c[2], c[3], '1')
    if k == 'rgba':
        return ('color', c[1], c[2], c[3], str(Fraction(c[4])))
    if k == 'func':
        return ('func', c[1].lower(), [exp_comp(a) for a in c[2]], list(c[3]))
    if k == 'calc':
        return ('calc', [exp_comp_calc(c[1]), c[2], exp_comp_calc(c[3])])
    if k == 'urange':
        return ('urange', c[1].lower())
    raise ValueError(k)


def exp_comp_calc(c):
    # inside calc() a zero keeps its unit (the unit-less zero rule is about lengths as values)
    return exp_num(c)


def exp_items(items):
    out = []
    for it in items:
        if it[0] == 'raw':
            continue
        if it[0] == 'comment':
            out.append(('comment', '/*' + it[1] + '*/'))
        else:
            _, name, comps, seps, imp = it
            out.append(('decl', name.lower(), [exp_comp(c) for c in comps], list(seps), bool(imp)))
    return out


class Expect:
    def __init__(self, stmts, comments=True):
        self.prefixes = {}
        self.default = None
        self.comments = comments
        for st in stmts:
            if st[0] == 'namespace':
                if st[1]:
                    self.prefixes[st[1]] = st[2]
                else:
                    self.default = st[2]

    def ns(self, prefix, for_attr=False):
        if prefix is None:
            return None if for_attr else (self.default if self.default is not None else None)
        if prefix == '*':
            return 'ANY'
        if prefix == '':
            # attributes never take the default namespace: '|attr' and 'attr' are the same name
            return None if for_attr else ''
        return self.prefixes[prefix]

    def part(self, p):
        k = p[0]
        if k in ('class', 'id'):
            return (k, p[1])
        if k == 'attr':
            _, prefix, name, op, val, quoted = p
            return ('attr', self.ns(prefix, True), name, op, val)
        if k == 'pc':
            return ('pc', p[1].lower())
        if k == 'pcf':
            return ('pcf', p[1].lower(), p[2].replace(' ', ''))
        if k == 'pe':
            return ('pe', p[1].lower())
        if k == 'not':
            inner = p[1]
            if len(inner) == 2 and inner[0] not in ('class', 'id', 'pc'):
                return ('not', ('type', self.ns(inner[0]), inner[1]))
            return ('not', self.part(inner))
        raise ValueError(k)

    def selector(self, sel):
        out = []
        a = b = c = 0
        for x in sel:
            if isinstance(x, str):
                out.append(('comb', x))
                continue
            ts, parts = x
            if ts:
                out.append(('type', self.ns(ts[0]), ts[1]))
                if ts[1] != '*':
                    c += 1
            for p in parts:
                out.append(self.part(p))
                q = p[1] if p[0] == 'not' else p
                if p[0] == 'not' and len(q) == 2 and q[0] not in ('class', 'id', 'pc'):
                    if q[1] != '*':
                        c += 1
                elif q[0] == 'id':
                    a += 1
                elif q[0] in ('class', 'attr'):
                    b += 1  # pseudo-classes do not count (C16 states the formula)
                elif q[0] == 'pe':
                    c += 1
        return {'seq': out, 'specificity': (0, a, b, c)}

    def query(self, q):
        mod, mtype, feats = q
        return (mod.lower() if mod else None, mtype.lower() if mtype else None, [(f.lower(), exp_comp(v) if v is not None else None) for f, v in feats])

    def queries(self, qs):
        out = []
        seen = set()
        for q in qs:
            e = self.query(q)
            if e[0] is None and not e[2] and e[1]:
                if e[1] in seen:
                    continue  # a repeated plain medium is dropped (the first stays where it is)
                seen.add(e[1])
            out.append(e)
        # a simple 'all' absorbs the list (C17); the generator never emits it among others
        return out

    def stmts(self, stmts):
        out = []
        for st in stmts:
            k = st[0]
            if k == 'raw':
                continue
            if k == 'comment':
                if self.comments:
                    out.append(('comment', '/*' + st[1] + '*/'))
            elif k == 'charset':
                out.append(('charset', st[1].lower()))
            elif k == 'import':
                out.append(('import', st[1], self.queries(st[3]) if st[3] else [(None, 'all', [])]))
            elif k == 'namespace':
                out.append(('namespace', st[1] or '', st[2]))
            elif k == 'style':
                out.append(('style', [self.selector(s) for s in st[1]], self.items(st[2])))
            elif k == 'media':
                out.append(('media', self.queries(st[1]), self.stmts(st[2])))
            elif k == 'page':
                _, name, pseudo, items, boxes = st
                sel = (name or '') + (':' + pseudo.lower() if pseudo else '')
                out.append(('page', sel, self.items(items), [(b.lower(), self.items(bi)) for b, bi in boxes]))
            elif k == 'fontface':
                out.append(('fontface', self.items(st[1])))
            elif k == 'unknown':
                out.append(('unknown', st[1].lower()))
        return out

    def items(self, items):
        out = exp_items(items)
        if not self.comments:
            out = [i for i in out if i[0] != 'comment']
        return out


def expected(stmts, comments=True):
    return Expect(stmts, comments).stmts(stmts)
