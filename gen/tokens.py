"""Token spellings built from the CSS grammar (construction oracle for C05, fragments for C01).

Every spelling function returns (type, text, expected value).  Types are the names cssutils documents
in CSSProductions.  Values follow Appendix A1 of DESIGN.md (models.scan.decode)."""

from models.scan import decode, normalize_name

LETTERS = 'abcdefghijklmnopqrstuvwxyz'
HEXD = '0123456789abcdefABCDEF'
NONASCII = ['é', 'ß', 'Ω', '中', '\u00a0', '\U0001f600', '\u2028', 'ÿ', '\u0080']
RESERVED = {
    '@font-face': 'FONT_FACE_SYM',
    '@import': 'IMPORT_SYM',
    '@media': 'MEDIA_SYM',
    '@namespace': 'NAMESPACE_SYM',
    '@page': 'PAGE_SYM',
    '@variables': 'VARIABLES_SYM',
}


def hexescape(rng, ch, nxt_is_hex_or_space=True, force_term=False):
    """an escape for ch with 1-6 hex digits; the terminator is emitted whenever it is needed"""
    h = '%x' % ord(ch)
    if rng.random() < 0.3:
        h = h.upper()
    width = rng.randint(len(h), 6)
    h = h.rjust(width, '0')
    term = ''
    if force_term or nxt_is_hex_or_space or rng.random() < 0.3:
        term = rng.choice([' ', ' ', '\t', '\n', '\r\n', '\f'])
    return '\\' + h + term


def name_chars(rng, n, first, hostile=True):
    """a list of (spelling, ) pieces forming an identifier body"""
    out = []
    for i in range(n):
        r = rng.random()
        start = first and i == 0
        if not hostile or r < 0.55:
            pool = LETTERS + LETTERS.upper() + '_' + ('' if start else '0123456789-')
            out.append(rng.choice(pool))
        elif r < 0.7:
            out.append(rng.choice(NONASCII))
        elif r < 0.85:
            # hex escape of an arbitrary character, always explicitly terminated
            ch = rng.choice(list(LETTERS + '0123456789:. {}"\'\\~!@#$%&/()') + NONASCII)
            out.append(hexescape(rng, ch, force_term=True))
        else:
            # simple escape of a non-hex, non-newline character
            out.append('\\' + rng.choice('ghijklmnopqrstuvwxyzGZ:.~!@#$%&*()+=,/;[]{}|^" \'-_'))
    return out


def ident(rng, hostile=True, maxlen=6):
    pre = rng.choice(['', '', '', '-', '--']) if hostile else rng.choice(['', '', '-'])
    body = name_chars(rng, rng.randint(1, maxlen), True, hostile)
    return pre + ''.join(body)


def num(rng):
    sign = rng.choice(['', '', '', '+', '-'])
    ip = rng.choice(['0', '1', '12', '007', '100', '9', ''])
    fp = rng.choice(['', '', '.5', '.05', '.125', '.0', '.50'])
    if ip == '' and fp == '':
        ip = '3'
    return sign + ip + fp


def t_ident(rng):
    while True:
        t = ident(rng)
        if normalize_name(t) not in ('u',):  # 'u' + '+...' concerns are avoided by separators anyway
            return ('IDENT', t, decode(t))


def t_function(rng):
    while True:
        t = ident(rng)
        if normalize_name(t) not in ('url', 'and'):
            return ('FUNCTION', t + '(', decode(t) + '(')


def t_atkeyword(rng):
    r = rng.random()
    if r < 0.5:
        base = rng.choice(sorted(RESERVED))
        name = base[1:]
        sp = []
        for ch in name:
            q = rng.random()
            if q < 0.6:
                sp.append(ch)
            elif q < 0.8:
                sp.append(ch.upper())
            elif q < 0.9 and ch not in 'abcdef-':
                sp.append('\\' + ch)
            else:
                sp.append(hexescape(rng, ch, force_term=True))
        text = '@' + ''.join(sp)
        return (RESERVED[base], text, text)
    while True:
        t = ident(rng)
        if '@' + normalize_name(t) not in RESERVED and normalize_name(t) != 'charset':
            return ('ATKEYWORD', '@' + t, '@' + t)


def t_hash(rng):
    body = ''.join(name_chars(rng, rng.randint(1, 6), False))
    return ('HASH', '#' + body, '#' + decode(body))


def string_body(rng, quote, n=None, hostile=True):
    n = rng.randint(0, 8) if n is None else n
    out = []
    for _ in range(n):
        r = rng.random()
        if not hostile or r < 0.5:
            out.append(rng.choice(LETTERS + ' 0123456789.,;:{}()[]/*-+!@#$%^&=<>?|~`_'))
        elif r < 0.6:
            out.append('"' if quote == "'" else "'")
        elif r < 0.7:
            out.append('\\' + quote)
        elif r < 0.75:
            out.append('\\' + rng.choice(['\n', '\r\n', '\r', '\f']))
        elif r < 0.85:
            out.append(hexescape(rng, rng.choice(list('aA0 "\'\n\\') + NONASCII), force_term=True))
        elif r < 0.95:
            out.append(rng.choice(NONASCII + ['\t']))
        else:
            out.append('\\' + rng.choice('ghxyz:;/!(){}'))
    return ''.join(out)


def t_string(rng):
    q = rng.choice('"\'')
    t = q + string_body(rng, q) + q
    return ('STRING', t, decode(t, string=True))


def url_body(rng):
    out = []
    for _ in range(rng.randint(0, 8)):
        r = rng.random()
        if r < 0.7:
            out.append(rng.choice(LETTERS + '0123456789./:?&=#%~_-+!$*;,@[]{}|^`<>'))
        elif r < 0.8:
            out.append(rng.choice(NONASCII[:4]))
        elif r < 0.9:
            out.append(hexescape(rng, rng.choice('a( )"\''), force_term=True))
        else:
            # not '\\)': cssutils' documented url macro (CSS3-2003 draft, [*-~]) lets a bare backslash be
            # a url character, so 'url(a\\)' ends at that parenthesis (leniency, DESIGN C05 L)
            out.append('\\' + rng.choice('( ,\'"gx'))
    return ''.join(out)


def t_uri(rng):
    u = rng.choice(['url', 'url', 'URL', 'Url', 'uRl', 'u\\rl', '\\75rl', '\\55 rl', 'u\\72 l', 'ur\\4c '])
    w1 = rng.choice(['', '', ' ', '\t', '\n', ' \r\n'])
    w2 = rng.choice(['', '', ' ', '\t', '\n'])
    if rng.random() < 0.5:
        q = rng.choice('"\'')
        body = q + string_body(rng, q) + q
    else:
        body = url_body(rng)
        if body.endswith(tuple(' \t\n\r\f')) and not w2:
            pass  # the terminator of a trailing hex escape is part of w for the regex; still one URI
    t = u + '(' + w1 + body + w2 + ')'
    return ('URI', t, decode(t))


def t_number(rng):
    t = num(rng)
    return ('NUMBER', t, t)


def t_percentage(rng):
    t = num(rng) + '%'
    return ('PERCENTAGE', t, t)


def t_dimension(rng):
    n = num(rng)
    r = rng.random()
    if r < 0.6:
        u = rng.choice(['px', 'em', 'EX', 'cm', 'deg', 'Hz', 's', 'x', 'e3', '-a', '_'])
    else:
        u = ident(rng, maxlen=3)
    return ('DIMENSION', n + u, n + decode(u))


def t_urange(rng):
    a = ''.join(rng.choice('0123456789abcdefABCDEF') for _ in range(rng.randint(1, 6)))
    if rng.random() < 0.3:
        k = rng.randint(1, len(a))
        a = a[: len(a) - k] + '?' * k
        t = rng.choice('uU') + '+' + a
    elif rng.random() < 0.5:
        b = ''.join(rng.choice('0123456789abcdefABCDEF') for _ in range(rng.randint(1, 6)))
        t = rng.choice('uU') + '+' + a + '-' + b
    else:
        t = rng.choice('uU') + '+' + a
    return ('UNICODE-RANGE', t, t)


def t_comment(rng):
    body = ''.join(rng.choice(list('abc *\n/\\"\'{};@') + ['é', '* ', '**']) for _ in range(rng.randint(0, 8)))
    body = body.replace('*/', '* /')
    if body.endswith('*') and rng.random() < 0.5:
        body += ' '
    t = '/*' + body + '*/'
    return ('COMMENT', t, None)  # value: span verbatim or with hex escapes decoded (leniency L)


FIXED = [
    ('INCLUDES', '~='),
    ('DASHMATCH', '|='),
    ('PREFIXMATCH', '^='),
    ('SUFFIXMATCH', '$='),
    ('SUBSTRINGMATCH', '*='),
    ('CDO', '<!--'),
    ('CDC', '-->'),
]
SAFE_CHARS = '{}()[]:;,.+>~*=!/%&<-|^$?@#\x01\x7f\x00`'


def t_fixed(rng):
    ty, t = rng.choice(FIXED)
    return (ty, t, t)


def t_char(rng):
    c = rng.choice(SAFE_CHARS)
    return ('CHAR', c, c)


def t_charset_mid(rng):
    # '@charset ' away from offset 0 is still CHARSET_SYM (value includes the space)
    return ('CHARSET_SYM', '@charset ', '@charset ')


KINDS = [
    (t_ident, 6), (t_function, 3), (t_atkeyword, 3), (t_hash, 2), (t_string, 4), (t_uri, 3),
    (t_number, 3), (t_percentage, 2), (t_dimension, 3), (t_urange, 1), (t_comment, 2),
    (t_fixed, 2), (t_char, 6), (t_charset_mid, 1),
]  # fmt: skip
_POP = [k for k, w in KINDS for _ in range(w)]

SEPS = [' ', ' ', '\n', '\t', '\r\n', '\f', '  ', ' \n ', '/**/', '/* c */', ' /*x*/ ', '/*a*//*b*/']
NOSEP_LEFT_CHARS = set('{};,[]>:)')


def split_sep(sep):
    """token list a separator denotes"""
    out = []
    i = 0
    while i < len(sep):
        if sep.startswith('/*', i):
            j = sep.index('*/', i + 2) + 2
            out.append(('COMMENT', sep[i:j], None))
            i = j
        else:
            j = i
            while j < len(sep) and sep[j] in ' \t\r\n\f':
                j += 1
            out.append(('S', sep[i:j], sep[i:j]))
            i = j
    return out


def sequence(rng, maxlen=12):
    """(text, expected token list) with unambiguous separators"""
    n = rng.randint(1, maxlen)
    toks = []
    text = []
    prev = None
    if rng.random() < 0.08:
        text.append('@charset ')
        toks.append(('CHARSET_SYM', '@charset ', '@charset '))
        prev = ('CHARSET_SYM', '@charset ', None)
    for i in range(n):
        tok = rng.choice(_POP)(rng)
        if prev is not None:
            nosep = (
                (prev[0] in ('STRING', 'URI', 'COMMENT') or (prev[0] == 'CHAR' and prev[1] in NOSEP_LEFT_CHARS))
                and rng.random() < 0.5
            )
            if prev[0] == 'CHARSET_SYM':
                nosep = rng.random() < 0.7
            if not nosep:
                sep = rng.choice(SEPS)
                if prev[0] == 'CHARSET_SYM' and sep[0] in ' \t\r\n\f':
                    sep = '/**/'  # white space directly after '@charset ' is its own S token: keep it simple
                # a CHAR '/' directly before a comment separator would read '//*..': fine (CHAR, COMMENT);
                # a CHAR '/' directly before '*=' would open a comment: always separate by white space
                if prev[1].endswith('/') and sep.startswith('/*'):
                    sep = ' ' + sep
                if sep.endswith('*/') and tok[1].startswith('/') and tok[0] == 'CHAR':
                    sep = sep + ' '
                text.append(sep)
                toks.extend(split_sep(sep))
            else:
                # glued: make sure the right token cannot be absorbed - it cannot, the left one is closed
                if prev[1].endswith('/') and tok[1].startswith('*'):
                    text.append(' ')
                    toks.append(('S', ' ', ' '))
        text.append(tok[1])
        toks.append(tok)
        prev = tok
    return ''.join(text), toks
