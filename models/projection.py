"""DOM -> spelling-invariant structure (DESIGN 5.2).  Reads the parsed objects through their accessors
(cssRules, type, selectorList, seq items of selectors/values, getProperties(all=True), media, href ...) and
returns the same structure gen.sheets.expected() computes from the abstract tree."""

from fractions import Fraction

from models.scan import decode

LENGTH_UNITS = {'px', 'em', 'ex', 'cm', 'mm', 'in', 'pt', 'pc'}
CSS2_PE = {'before', 'after', 'first-line', 'first-letter'}


def plain(name):
    """A1 name normalisation without lower-casing: escapes of ordinary name characters resolved"""
    if isinstance(name, str) and '\\' in name:
        return decode(name, keep_simple=False)
    return name


def frac(v):
    if isinstance(v, int):
        return Fraction(v)
    return Fraction(repr(v))


def p_value(v, in_calc=False):
    """one value object (item of a PropertyValue / function argument)"""
    cls = type(v).__name__
    if cls == 'DimensionValue':
        u = (v.dimension or '').lower()
        val = frac(v.value)
        if val == 0 and u in LENGTH_UNITS:
            u = ''
        return ('num', str(val), u)
    if cls == 'ColorValue':
        return ('color', v.red, v.green, v.blue, str(frac(v.alpha)))
    if cls == 'URIValue':
        return ('url', plain_content(v.uri))
    if cls == 'CSSFunction':
        return p_function(v)
    if cls == 'CSSCalc':
        out = []
        for it in v.seq:
            t, val = it.type, it.value
            if hasattr(val, 'seq') and not isinstance(val, str):
                if type(val).__name__ == 'CSSComment':
                    continue
                out.append(p_value(val, in_calc=True))
            elif t == 'CHAR' and val in '+-*/':
                out.append(val)
        return ('calc', out)
    if cls == 'CSSVariable':
        fb = getattr(v, 'fallback', None)
        if fb is None:
            return ('var', v.name)
        # (the fallback is a value or a whole property value)
        return ('var', v.name, p_propertyvalue(fb) if hasattr(fb, 'seq') and type(fb).__name__ == 'PropertyValue' else p_value(fb))
    if cls == 'MSValue':
        return ('ms', v.cssText)
    if cls == 'Value':
        t = v.type
        if t == 'STRING':
            return ('string', plain_content(v.value))
        if t == 'IDENT':
            return ('ident', plain(v.value))
        if t == 'UNICODE-RANGE':
            return ('urange', v.value.lower())
        return ('value', t, v.value)
    return ('other', cls, getattr(v, 'cssText', repr(v)))


def plain_content(s):
    """string/url content: cssutils keeps simple escapes (backslash + char) undecoded in values"""
    if isinstance(s, str) and '\\' in s:
        return decode(s, keep_simple=False)
    return s


def p_function(f):
    name = None
    args = []
    seps = []
    pending_sep = None
    for it in f.seq:
        t, val = it.type, it.value
        if t == 'FUNCTION':
            name = plain(val)[:-1].lower()
        elif isinstance(val, str):
            if val == ',':
                pending_sep = ','
            continue
        elif type(val).__name__ == 'CSSComment':
            continue
        else:
            if args:
                seps.append(pending_sep or ' ')
            pending_sep = None
            args.append(p_value(val))
    return ('func', name, args, seps)


def p_propertyvalue(pv):
    comps = []
    seps = []
    pending = None
    for it in pv.seq:
        t, val = it.type, it.value
        if t == 'operator':
            pending = val
            continue
        if type(val).__name__ == 'CSSComment' or isinstance(val, str):
            continue
        if comps:
            seps.append(pending or ' ')
        pending = None
        comps.append(p_value(val))
    return comps, seps


def p_items(style, comments=True, with_valid=False):
    out = []
    for it in style.seq:
        v = it.value
        if type(v).__name__ == 'CSSComment':
            if comments:
                out.append(('comment', v.cssText))
        elif type(v).__name__ == 'Property':
            comps, seps = p_propertyvalue(v.propertyValue)
            if with_valid:
                out.append(('decl', v.name, comps, seps, v.priority == 'important', bool(v.valid)))
            else:
                out.append(('decl', v.name, comps, seps, v.priority == 'important'))
        else:
            out.append(('other-item', type(v).__name__))
    return out


def p_ns(uri):
    if uri == -1:
        return 'ANY'
    return uri


def p_selector(sel):
    out = []
    seq = list(sel.seq)
    i = 0
    n = len(seq)

    def attr(i):
        # attribute-start ... attribute-end
        name = op = val = None
        ns = None
        i += 1
        while i < n and seq[i].type != 'attribute-end':
            t, v = seq[i].type, seq[i].value
            if t == 'attribute-selector':
                if isinstance(v, tuple):
                    ns, name = p_ns(v[0]), plain(v[1])
                else:
                    name = plain(v)
            elif t in ('equals', 'includes', 'dashmatch', 'prefixmatch', 'suffixmatch', 'substringmatch'):
                op = v
            elif t in ('STRING', 'IDENT', 'attribute-value'):
                val = plain_content(v) if t == 'STRING' else plain(v)
            i += 1
        return ('attr', ns, name, op, val), i + 1

    def simple(i):
        t, v = seq[i].type, seq[i].value
        if t in ('type-selector', 'universal', 'negation-type-selector', 'negation-universal'):
            return ('type', p_ns(v[0]), plain(v[1])), i + 1
        if t == 'id':
            return ('id', plain(v[1:])), i + 1
        if t == 'class':
            return ('class', plain(v[1:])), i + 1
        if t == 'attribute-start':
            return attr(i)
        if t == 'pseudo-class':
            name = plain(v).lower()
            if name.endswith('('):
                j = i + 1
                arg = []
                while j < n and seq[j].type != 'function-end':
                    if isinstance(seq[j].value, str):
                        arg.append(seq[j].value)
                    j += 1
                return ('pcf', name[1:-1], ''.join(a.strip() for a in arg)), j + 1
            return ('pc', name[1:]), i + 1
        if t == 'pseudo-element':
            return ('pe', plain(v).lower().lstrip(':')), i + 1
        return None, i + 1

    pending_comb = None
    while i < n:
        t, v = seq[i].type, seq[i].value
        if t == 'COMMENT':
            i += 1
            continue
        if t in ('descendant', 'child', 'adjacent-sibling', 'following-sibling'):
            # runs of descendant combinators around a comment collapse; an explicit combinator wins over white space
            if pending_comb is None or pending_comb == ' ':
                pending_comb = v
            i += 1
            continue
        if pending_comb is not None:
            out.append(('comb', pending_comb))
            pending_comb = None
        if t == 'negation-start':
            j = i + 1
            inner = None
            while j < n and seq[j].type != 'negation-end':
                if seq[j].type != 'COMMENT':
                    got, j2 = simple(j)
                    if got is not None and inner is None:
                        inner = got
                    j = j2
                else:
                    j += 1
            out.append(('not', inner))
            i = j + 1
            continue
        got, i2 = simple(i)
        if got is not None:
            if got[0] == 'pc' and got[1] in CSS2_PE:
                got = ('pe', got[1])  # one-colon spelling of the CSS2 pseudo-elements
            out.append(got)
        else:
            out.append(('unknown-item', t, str(v)))
        i = i2
    return {'seq': out, 'specificity': tuple(sel.specificity)}


def p_query(q):
    mod = None
    mtype = None
    feats = []
    seq = [it for it in q.seq if type(it.value).__name__ != 'CSSComment']
    i = 0
    n = len(seq)
    while i < n:
        t, v = seq[i].type, seq[i].value
        if t == 'IDENT':
            lv = plain(v).lower()
            if lv in ('not', 'only') and mtype is None and not feats:
                mod = lv
            elif lv == 'and':
                pass
            else:
                mtype = lv
            i += 1
        elif t == 'CHAR' and v == '(':
            fname = None
            fval = None
            i += 1
            while i < n and not (seq[i].type == 'CHAR' and seq[i].value == ')'):
                tt, vv = seq[i].type, seq[i].value
                if tt == 'IDENT' and fname is None:
                    fname = plain(vv).lower()
                elif tt == 'CHAR' and vv == ':':
                    pass
                elif not isinstance(vv, str):
                    fval = p_value(vv)
                elif fname is not None:
                    fval = ('raw', tt, vv)
                i += 1
            feats.append((fname, fval))
            i += 1
        else:
            i += 1
    return (mod, mtype, feats)


def p_media(ml):
    return [p_query(it.value) for it in ml]


def p_rules(rules, comments=True, with_valid=False):
    out = []
    for r in rules:
        cls = type(r).__name__
        if cls == 'CSSComment':
            if comments:
                out.append(('comment', r.cssText))
        elif cls == 'CSSCharsetRule':
            out.append(('charset', (r.encoding or '').lower()))
        elif cls == 'CSSImportRule':
            out.append(('import', r.href, p_media(r.media)))
        elif cls == 'CSSNamespaceRule':
            out.append(('namespace', plain(r.prefix or ''), r.namespaceURI))
        elif cls == 'CSSStyleRule':
            out.append(('style', [p_selector(s) for s in r.selectorList], p_items(r.style, comments, with_valid)))
        elif cls == 'CSSMediaRule':
            out.append(('media', p_media(r.media), p_rules(r.cssRules, comments, with_valid)))
        elif cls == 'CSSPageRule':
            boxes = [(m.margin.lower(), p_items(m.style, comments, with_valid)) for m in r.cssRules if type(m).__name__ == 'MarginRule']
            out.append(('page', normalize_page(r.selectorText), p_items(r.style, comments, with_valid), boxes))
        elif cls == 'CSSFontFaceRule':
            out.append(('fontface', p_items(r.style, comments, with_valid)))
        elif cls == 'CSSUnknownRule':
            out.append(('unknown', (r.atkeyword or '').lower()))
        elif cls == 'CSSVariablesRule':
            out.append(('variables', sorted((k, r.variables[k]) for k in r.variables.keys())))
        elif cls == 'MarginRule':
            out.append(('margin', r.margin.lower(), p_items(r.style, comments, with_valid)))
        else:
            out.append(('other-rule', cls))
    return out


def normalize_page(sel):
    import re

    sel = re.sub(r'/\*.*?\*/', '', sel or '', flags=re.S).strip()
    if ':' in sel:
        name, pseudo = sel.split(':', 1)
        return plain(name) + ':' + pseudo.lower()
    return plain(sel)


def project(sheet, comments=True, with_valid=False):
    return p_rules(sheet.cssRules, comments, with_valid)


def diff(a, b, path='root'):
    """first difference between two projections, for reports"""
    if type(a) is not type(b) and not (isinstance(a, (list, tuple)) and isinstance(b, (list, tuple))):
        return '%s: %r != %r' % (path, a, b)
    if isinstance(a, dict):
        for k in sorted(set(a) | set(b)):
            if a.get(k) != b.get(k):
                return diff(a.get(k), b.get(k), path + '.' + str(k))
        return None
    if isinstance(a, (list, tuple)):
        if len(a) != len(b):
            return '%s: length %d != %d: %r != %r' % (path, len(a), len(b), trunc(a), trunc(b))
        for i, (x, y) in enumerate(zip(a, b)):
            if x != y:
                return diff(x, y, '%s[%d]' % (path, i))
        return None
    if a != b:
        return '%s: %r != %r' % (path, a, b)
    return None


def trunc(x, n=300):
    s = repr(x)
    return s if len(s) <= n else s[:n] + '...'
