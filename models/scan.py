"""Independent mini scanner pieces (DESIGN 5.3, Appendix A1), written from CSS 2.1 chapter 4 -
not from cssutils' productions.  Used as the independent party for token values (C05), for
content comparisons (C03) and for the spelling-invariant projection."""

HEX = set('0123456789abcdefABCDEF')
WS = ' \t\r\n\f'


def decode(s, string=False, keep_simple=True):
    """A1: hex escapes -> code point (+ one optional white space, CRLF counts as one);
    inside strings backslash+newline -> nothing; any other escape: both characters are kept
    when keep_simple (that is how cssutils stores values), else only the escaped character."""
    out = []
    i = 0
    n = len(s)
    while i < n:
        c = s[i]
        if c != '\\' or i + 1 >= n:
            out.append(c)
            i += 1
            continue
        d = s[i + 1]
        if d in HEX:
            j = i + 1
            while j < n and j < i + 7 and s[j] in HEX:
                j += 1
            num = int(s[i + 1 : j], 16)
            k = j
            if s[k : k + 2] == '\r\n':
                k += 2
            elif k < n and s[k] in WS:
                k += 1
            out.append(chr(num) if num <= 0x10FFFF else s[i:k])
            i = k
            continue
        if string and d in '\n\r\f':
            i += 3 if s[i + 1 : i + 3] == '\r\n' else 2
            continue
        out.append(c + d if keep_simple else d)
        i += 2
    return ''.join(out)


def normalize_name(s):
    """name normalisation: all escapes resolved, lower-cased"""
    return decode(s, keep_simple=False).lower()


def offsets(text, bomlen=0):
    """start offset of every line (lines are counted by line feeds only)"""
    starts = [bomlen]
    for i, ch in enumerate(text):
        if ch == '\n':
            starts.append(i + 1)
    return starts
