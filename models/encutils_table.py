"""A3 - independent decision procedure for encutils.getEncodingInfo, written from its docstring
(RFC 3023 rules for XML types, HTML 4 5.2.2 for text/html, media-type defaults for the rest)."""
import re

XMLAPP, XMLTEXT, HTML, CSS, TEXT, OTHER = 'XMLAPP', 'XMLTEXT', 'HTML', 'CSS', 'TEXT', 'OTHER'


def classify(media_type):
    if not media_type:
        return OTHER
    mt = media_type.strip().lower()
    major, _, minor = mt.partition('/')
    if major == 'application' and (minor in ('xml', 'xml-dtd', 'xml-external-parsed-entity') or minor.endswith('+xml')):
        return XMLAPP
    if major == 'text' and (minor in ('xml', 'xml-external-parsed-entity') or minor.endswith('+xml')):
        return XMLTEXT
    if mt == 'text/html':
        return HTML
    if mt == 'text/css':
        return CSS
    if major == 'text':
        return TEXT
    return OTHER


DEFAULTS = {XMLAPP: 'utf-8', XMLTEXT: 'ascii', HTML: 'iso-8859-1', TEXT: 'iso-8859-1', CSS: 'utf-8', OTHER: None}

# BOM -> the codec family; names are compared through codecs.lookup by the check
BOMS = [
    (b'\x00\x00\xfe\xff', 'utf-32-be'),
    (b'\xff\xfe\x00\x00', 'utf-32-le'),
    (b'\xfe\xff', 'utf-16-be'),
    (b'\xff\xfe', 'utf-16-le'),
    (b'\xef\xbb\xbf', 'utf-8'),
]

_DECL = re.compile(r'<\?xml\s[^>]*?\?>', re.S)
_ENC = re.compile(r'''\sencoding=(["'])([^"']+)\1''')


def sniff_xml(doc, default='utf-8'):
    """doc: str in which every character stands for one byte (latin-1 view) or real text"""
    head = doc[:4].encode('latin-1', 'replace')
    for bom, name in BOMS:
        if head.startswith(bom):
            return name
    if doc.startswith('<?xml'):
        m = _DECL.match(doc[:2048])
        if m:
            e = _ENC.search(m.group(0))
            if e:
                return e.group(2).lower()
    return default


def decide(media_type, http_charset, doc, meta_charset, has_response=True):
    """-> dict(encoding, mismatch, http, xml, meta); doc is the latin-1 view of the document;
    meta_charset is what the generator wrote into the first content-type <meta> (or None)"""
    if has_response:
        cls = classify(media_type)
    else:
        cls = XMLAPP if '<?xml version=' in doc[:30] else OTHER
    http = http_charset.lower() if http_charset else None
    xml = None
    if cls == XMLAPP:
        xml = sniff_xml(doc, 'utf-8')
    elif cls == HTML:
        xml = sniff_xml(doc, None)
    meta = meta_charset.lower() if (meta_charset and cls in (HTML, TEXT)) else None
    enc = http
    if not enc:
        if cls == XMLAPP:
            enc = xml
        elif cls == HTML:
            enc = meta or DEFAULTS[HTML]
        else:
            enc = DEFAULTS[cls]
    return {'encoding': enc, 'http': http, 'xml': xml, 'meta': meta, 'cls': cls, 'known': [x for x in (http, xml, meta) if x]}
