"""A2 - CSS 2.1 section 4.4 encoding detection, written from the specification table
(BOM, then an ASCII-compatible '@charset "..."' at offset 0, else UTF-8)."""
import re

PREFIX = b'@charset "'


def detect_final(b):
    """-> (encoding, explicit or None when the flag is not asserted) for a complete byte string"""
    if b.startswith(b'\xef\xbb\xbf'):
        return ('utf-8-sig', True)
    if b.startswith(b'\xff\xfe\x00\x00') or b.startswith(b'\x00\x00\xfe\xff'):
        return ('utf-32', True)
    if b.startswith(b'\xff\xfe') or b.startswith(b'\xfe\xff'):
        return ('utf-16', True)
    if b.startswith(b'@\x00\x00\x00'):
        return ('utf-32-le', None)
    if b.startswith(b'\x00\x00\x00@'):
        return ('utf-32-be', None)
    if b.startswith(b'@\x00c\x00'):
        return ('utf-16-le', None)
    if b.startswith(b'\x00@'):
        return ('utf-16-be', None)
    if b.startswith(PREFIX):
        end = b.find(b'"', len(PREFIX))
        if end >= 0:
            return (b[len(PREFIX):end].decode('latin-1'), True)
    return ('utf-8', False)


def detect_text_final(t):
    p = '@charset "'
    if t.startswith(p):
        end = t.find('"', len(p))
        if end >= 0:
            return (t[len(p):end], True)
    return ('utf-8', False)


_RULE = re.compile(r'@charset "([^"]*)"')


def fix(text, enc):
    """the text with the name in a leading @charset rule replaced by the encoding actually used"""
    m = _RULE.match(text)
    if not m:
        return text
    name = 'utf-8' if enc.replace('_', '-').lower() == 'utf-8-sig' else enc
    return '@charset "' + name + '"' + text[m.end():]
