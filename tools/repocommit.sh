#!/bin/sh
# usage: repocommit.sh <message-file>  - commits the working tree of /repo only if the baseline suite is unchanged, else reverts
cd /repo || exit 2
if sh /verif/tools/repotest.sh; then git commit -qa -F "$1" && git log --oneline | head -1; else echo "TESTS CHANGED - reverting working tree"; git checkout -- .; exit 1; fi
