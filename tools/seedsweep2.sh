#!/bin/sh
# usage: seedsweep.sh [seed-id ...]   - developer helper: (re)test seeded changes in a scratch worktree of /repo HEAD (VERIF_REPO), leaving /repo alone
W=${SWEEP_WT:-/tmp/wt/seedscratch2}
cd /repo && { [ -d $W ] || git worktree add -f $W HEAD >/dev/null 2>&1; }
cd $W && git checkout -q --detach $(git -C /repo rev-parse HEAD) && git checkout -q -- . 
seeds="$@"; [ -n "$seeds" ] || seeds=$(ls /verif/seeded)
for s in $seeds; do
  prop=$(echo $s | cut -d- -f1)
  cd $W && git checkout -q -- .
  if ! git apply /verif/seeded/$s/patch.diff 2>/dev/null; then echo "$s DOES-NOT-APPLY"; continue; fi
  cd /verif
  out=$(VERIF_EVIDENCE_DIR=${SWEEP_EV:-/tmp/wt/seed-evidence2} VERIF_REPO=$W /venv/bin/python -B engine/run.py $prop --tier quick 2>&1)
  rc=$?
  echo "$s rc=$rc $(echo "$out" | grep -v "^KNOWN-FINDING" | tail -1 | cut -c1-120) oracles=$(echo "$out" | grep "^VIOLATION" | sed "s/.*oracle=//" | sort -u | tr "\n" "," )"
done
cd $W && git checkout -q -- .
