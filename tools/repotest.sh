#!/bin/sh
# baseline suite with hooks off: must report exactly 410 passed and the 2 always-failing doctests
cd /repo && out=$(/venv/bin/python -m pytest -q -p no:cacheprovider 2>&1 | tail -1)
echo "$out"
case "$out" in *"2 failed, 410 passed"*) exit 0;; *) exit 1;; esac
