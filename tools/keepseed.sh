#!/bin/sh
# usage: keepseed.sh <PROP> <A|B> [patchfile]  - validates a sub-agent's seeded change in its scratch worktree
#   (suite still 410 passed with it, demo fails with it and passes without) and stores it under /verif/seeded/<PROP>-<X>/
prop=$1; x=$2; wt=/tmp/wt/$prop; patch=${3:-$wt/mut$x.diff}
cd $wt || exit 2
git checkout -q -- . 
git apply "$wt/mut$x.diff" || { echo "patch does not apply in worktree"; exit 2; }
suite=$(PYTHONPATH=$wt /venv/bin/python -m pytest -q -p no:cacheprovider 2>&1 | tail -1)
PYTHONPATH=$wt /venv/bin/python demo$x.py >/tmp/wt/demo_with.out 2>&1; rc_with=$?
git checkout -q -- .
PYTHONPATH=$wt /venv/bin/python demo$x.py >/tmp/wt/demo_without.out 2>&1; rc_without=$?
echo "suite with change: $suite"; echo "demo with change rc=$rc_with; without rc=$rc_without"
case "$suite" in *"2 failed, 410 passed"*) ;; *) echo "REJECT: suite changed"; exit 1;; esac
[ $rc_with -ne 0 ] && [ $rc_without -eq 0 ] || { echo "REJECT: demo does not discriminate"; exit 1; }
d=/verif/seeded/$prop-$x; mkdir -p $d
cp "$patch" $d/patch.diff; cp $wt/demo$x.py $d/demo.py
[ "$patch" != "$wt/mut$x.diff" ] && cp $wt/mut$x.diff $d/patch.original.diff
echo "kept in $d"
