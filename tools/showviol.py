#!/usr/bin/env python3
"""developer helper: summarise evidence/replays/<ID> by (oracle, features, site)"""
import json, glob, sys, collections
pid = sys.argv[1]
groups = collections.defaultdict(list)
for f in glob.glob('/verif/evidence/replays/%s/*.json' % pid):
    d = json.load(open(f))
    groups[(d['oracle'], tuple(d['features']), json.dumps(d['site']))].append(d)
for k, ds in groups.items():
    print('==', k, len(ds))
    for d in ds[: int(sys.argv[2]) if len(sys.argv) > 2 else 2]:
        print('   case  :', json.dumps(d['case'], ensure_ascii=False)[:int(sys.argv[3]) if len(sys.argv)>3 else 220])
        print('   detail:', json.dumps(d['detail'], ensure_ascii=False)[:int(sys.argv[3]) if len(sys.argv)>3 else 260])
