#!/bin/sh
# developer helper: validate MANIFEST.json and evidence files against the schemas (jsonschema lives in python3-vt)
python3-vt - <<'PY'
import json, jsonschema, glob
m = json.load(open('/verif/MANIFEST.json'))
jsonschema.validate(m, json.load(open('/root/.vp/MANIFEST.schema.json')))
es = json.load(open('/root/.vp/EVIDENCE.schema.json'))
for f in sorted(glob.glob('/verif/evidence/*.json')):
    jsonschema.validate(json.load(open(f)), es)
    print('ok', f)
print('manifest ok')
PY
