#!/usr/bin/env python3
"""Regenerates /verif/MANIFEST.json from the metadata each check module declares
(PROPERTY, LEVEL, LEVEL_TEXT, LEVEL_NOTE, TECHNIQUE, DESIGN_REF).  Properties without a check module are
listed under not_applicable with the reason given in PENDING below."""
import ast
import json
import os
import sys

ROOT = os.path.dirname(os.path.dirname(os.path.abspath(__file__)))
PY = '/venv/bin/python -B'
PENDING = {}  # property id -> reason (filled while the framework is being built)


def meta(path):
    tree = ast.parse(open(path, encoding='utf-8').read())
    out = {}
    for node in tree.body:
        if isinstance(node, ast.Assign) and len(node.targets) == 1 and isinstance(node.targets[0], ast.Name):
            try:
                out[node.targets[0].id] = ast.literal_eval(node.value)
            except Exception:
                pass
    return out


def main():
    props = [json.loads(l)['id'] for l in open(os.path.join(ROOT, 'properties.jsonl'), encoding='utf-8') if l.strip()]
    checks = []
    na = []
    for pid in props:
        path = os.path.join(ROOT, 'checks', pid.lower() + '.py')
        if not os.path.exists(path):
            na.append({'property_id': pid, 'reason': PENDING.get(pid, 'check not built yet in this round (planned, see DESIGN.md section 6)')})
            continue
        m = meta(path)
        checks.append({
            'property_id': pid,
            'quick_cmd': f'{PY} engine/run.py {pid} --tier quick',
            'thorough_cmd': f'{PY} engine/run.py {pid} --tier thorough',
            'evidence_file': f'/verif/evidence/{pid}.json',
            'replay_cmd_template': f'{PY} engine/run.py {pid} --replay {{path}}',
            'engine': 'runtime-monitor',
            'level_claimed': {
                'category': m.get('LEVEL', 'exploration'),
                'text': m.get('LEVEL_TEXT', ''),
                'design_ref': m.get('DESIGN_REF', 'DESIGN.md section 6, ' + pid),
            },
            'level_note': m.get('LEVEL_NOTE', ''),
            'technique': m.get('TECHNIQUE', 'runtime monitoring'),
        })
    manifest = {
        'version': 1,
        'setup_cmd': 'sh /verif/tools/setup.sh',
        'hooks': {
            'guard': 'CSSUTILS_VERIF_HOOKS',
            'enable': 'no in-tree hooks: monitors wrap the repository\'s functions from the harness (PYTHONPATH=$VERIF_REPO, -B); the guard name is reserved and never read',
            'baseline_off_cmd': 'cd /repo && /venv/bin/python -m pytest -ra -q -p no:cacheprovider --timeout=900 --continue-on-collection-errors',
            'source_commits': [],
            'add_only': True,
        },
        'engines': [{
            'name': 'runtime-monitor',
            'path': '/verif/engine/run.py',
            'serves_properties': [c['property_id'] for c in checks],
            'kind_free_text': 'runs the real cssutils code from /repo\'s working tree in up to 16 subprocess workers under generated workloads; '
                              'monitors (reference models in lock-step, construction oracles, metamorphic relations, invariants at quiescent points, '
                              'post-condition wrappers on real functions, sys.monitoring step meter, CPU-time watchdog) decide each execution',
        }],
        'checks': checks,
        'notes': 'exit 0 held (KNOWN-FINDING lines for open entries of known_findings.json), 1 VIOLATION, 2 INCONCLUSIVE (monitor not reached / worker lost). '
                 'VERIF_SEED, VERIF_TIER, VERIF_REPO, VERIF_WORKERS are honoured.',
        'not_applicable': na,
    }
    with open(os.path.join(ROOT, 'MANIFEST.json'), 'w', encoding='utf-8') as f:
        json.dump(manifest, f, indent=1, ensure_ascii=False)
        f.write('\n')
    print('checks:', [c['property_id'] for c in checks], 'pending:', [n['property_id'] for n in na])


if __name__ == '__main__':
    sys.exit(main())
