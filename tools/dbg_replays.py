#!/venv/bin/python
"""developer helper: group the replay files of a check by (oracle, coarse detail) and print one example per group"""
import json, glob, collections, sys, re
pid = sys.argv[1]
W = int(sys.argv[2]) if len(sys.argv) > 2 else 400
g = collections.Counter(); ex = {}
for f in glob.glob('/verif/evidence/replays/%s/*.json' % pid):
    v = json.load(open(f))
    d = v.get('detail', {})
    sig = re.sub(r"'[^']*'|\d+", '_', str(d.get('diff') or d.get('tb') or d)[:160])
    key = (v['oracle'], tuple(x for x in v['features'] if x.startswith(('entry.', 'reassign.'))), sig[-110:])
    g[key] += 1; ex[key] = (f, v)
for k, c in g.most_common(40):
    f, v = ex[k]
    print(c, k[0], k[1]); print('   ', f); print('    case:', json.dumps({a: b for a, b in v['case'].items() if a not in ('abstract',)}, ensure_ascii=False)[:W]); print('    det :', json.dumps(v['detail'], ensure_ascii=False)[:W])
