#!/usr/bin/env python3
"""usage: seedmeta.py <seed-id> <property> <needs> <caught_by> [<note>]  - writes /verif/seeded/<seed-id>/meta.json"""
import json, sys, os
sid, prop, needs, caught = sys.argv[1:5]
note = sys.argv[5] if len(sys.argv) > 5 else ''
d = '/verif/seeded/' + sid
meta = {
    'seed': sid, 'property': prop, 'needs_to_manifest': needs,
    'origin': 'written by an independent sub-agent that saw only the property text and a scratch worktree of /repo',
    'validated': 'tools/keepseed.sh: applied in a scratch worktree, baseline suite still "2 failed, 410 passed", demo.py exits 1 with the change and 0 without',
    'ran': 'tools/seedtest.sh seeded/%s/patch.diff %s  (git -C /repo apply; quick check; git -C /repo checkout -- .)' % (sid, prop),
    'caught_by': caught, 'note': note,
}
json.dump(meta, open(os.path.join(d, 'meta.json'), 'w'), indent=1)
print('ok', sid)
