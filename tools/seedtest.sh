#!/bin/sh
# usage: seedtest.sh <patch.diff> <ID> [<ID>...]   - applies a seeded change to /repo, runs the quick checks, reverts
patch=$1; shift
cd /repo || exit 2
if ! git diff --quiet; then echo "repo has uncommitted changes"; exit 2; fi
git apply "$patch" || { echo "PATCH DOES NOT APPLY"; exit 2; }
cd /verif
for id in "$@"; do
  out=$(${VERIF_PY:-/venv/bin/python} -B engine/run.py $id --tier ${TIER:-quick} 2>&1)
  rc=$?
  echo "== $id rc=$rc"
  echo "$out" | grep -v "^KNOWN-FINDING" | cut -c1-220 | head -${LINES_SHOWN:-6}
done
cd /repo && git checkout -- . && git status --short | grep -v egg-info
