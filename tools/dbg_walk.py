#!/venv/bin/python
"""developer helper: run one worker of a domwalk-based check in-process and group the violations"""
import sys, os, json, collections
sys.path.insert(0, '/verif')
os.environ.setdefault('VERIF_REPO', '/repo')
from engine import core
import importlib
pid = sys.argv[1]
k, n = (int(x) for x in (sys.argv[2] if len(sys.argv) > 2 else '0/16').split('/'))
mod = importlib.import_module('checks.' + pid.lower())
ctx = core.Ctx(pid, 'quick', int(os.environ.get('VERIF_SEED', '0')), k, n)
ctx.MAX_PER_GROUP = 100000; ctx.MAX_GROUPS = 100000
mod.run_worker(ctx)
g = collections.defaultdict(list)
for v in ctx.violations:
    det = v['detail']
    prob = det.get('problems') or det.get('exc') or det.get('error') or det.get('diff')
    key = (v['oracle'], str(det.get('op'))[:50] if v['oracle'] != 'structure' else '', str(prob or det.get('what') or det.get('used_but_not_declared'))[:int(os.environ.get('W', '160'))])
    if v['case'].get('kind') == 'battery':
        key = (v['oracle'], v['case']['mutator'], str(det.get('what')) + ' ' + str(det.get('exception', ''))[:40])
    g[key].append(v)
for key, vs in sorted(g.items(), key=lambda x: -len(x[1]))[: int(os.environ.get('N', '30'))]:
    print(len(vs), key)
    vs.sort(key=lambda v: len(json.dumps(v['case'])))
    print('     case:', json.dumps(vs[0]['case'])[:600])
    print('     det :', json.dumps(vs[0]['detail'])[:600])


def fires(case, oracle):
    import random
    sub = core.Ctx(pid, 'quick', 0, 0, 1)
    mod.replay(sub, case)
    return any(v['oracle'] == oracle for v in sub.violations), sub.violations


if os.environ.get('SHRINK'):
    print('---- shrunk witnesses')
    for key, vs in sorted(g.items(), key=lambda x: -len(x[1]))[: int(os.environ.get('N', '30'))]:
        case = dict(vs[0]['case'])
        ops = list(case['ops'])[: case.get('failed_at', len(case['ops'])) + 1]
        oracle = key[0]
        changed = True
        while changed:
            changed = False
            for i in range(len(ops) - 1):
                trial = ops[:i] + ops[i + 1 :]
                ok, _ = fires(dict(case, ops=trial), oracle)
                if ok:
                    ops = trial
                    changed = True
                    break
        ok, vv = fires(dict(case, ops=ops), oracle)
        print(key[0], json.dumps({'seed': case['seed'], 'ops': ops, 'focus': case.get('focus')}))
        if vv:
            print('    ', json.dumps(vv[0]['detail'])[:700])
