#!/bin/sh
# Offline setup: optional third-party contract library beside the repository's interpreter.
# Every check falls back to engine/contracts.py when it is absent, so a failure here is not fatal.
cd /verif || exit 1
mkdir -p evidence
/venv/bin/pip install --quiet --no-index --find-links /opt/veriftools/wheels --target /verif/.deps icontract >/dev/null 2>&1 || true
/venv/bin/python -B -c "import sys; sys.path.insert(0,'/verif'); from engine import core; core.import_repo(); print('setup ok')"
