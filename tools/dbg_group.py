#!/venv/bin/python
"""developer helper: run one worker of any check in-process and print violation groups (oracle, features, first problem) compactly"""
import sys, os, json, collections, importlib
sys.path.insert(0, '/verif')
os.environ.setdefault('VERIF_REPO', '/repo')
from engine import core
pid = sys.argv[1]
k, n = (int(x) for x in (sys.argv[2] if len(sys.argv) > 2 else '0/16').split('/'))
mod = importlib.import_module('checks.' + pid.lower())
ctx = core.Ctx(pid, 'quick', int(os.environ.get('VERIF_SEED', '0')), k, n)
ctx.MAX_PER_GROUP = 3
mod.run_worker(ctx)
g = collections.Counter()
first = {}
for kk, cnt in ctx.viol_groups.items():
    g[kk[:2]] += cnt
for v in ctx.violations:
    first.setdefault((v['oracle'], tuple(v['features'])), v)
W = int(os.environ.get('W', '300'))
for key, cnt in g.most_common(int(os.environ.get('N', '20'))):
    v = first.get(key)
    print(cnt, key)
    if v:
        print('    case:', json.dumps(v['case'], ensure_ascii=False)[:W])
        print('    det :', json.dumps(v['detail'], ensure_ascii=False)[:W])
print({k: v for k, v in ctx.counters.items() if k.startswith('oracle') or k.startswith('edges') or k.startswith('urls')})
