#!/usr/bin/env python3
"""developer helper: regenerate the generated tables of DESIGN.md (between the BEGIN/END GENERATED markers) from known_findings.json and
seeded/*/meta.json"""
import glob, json, os, re, subprocess

ROOT = os.path.dirname(os.path.dirname(os.path.abspath(__file__)))
kf = json.load(open(os.path.join(ROOT, 'known_findings.json')))['findings']


def esc(s):
    return str(s).replace('|', '\\|').replace('\n', ' ')


lines = []
lines.append('### 11.1 Findings (generated from `known_findings.json`)\n')
fixed = [f for f in kf if f['status'] == 'fixed']
opened = [f for f in kf if f['status'] == 'open']
lines.append('%d genuine defects of the pinned tree were repaired (one `fix:` commit each, suite unchanged at "2 failed, 410 passed") and %d are recorded as open known findings.\n' % (len(fixed), len(opened)))
lines.append('**Open (a check prints `KNOWN-FINDING:` for each and exits 0; any other violation of the same property is still an alarm)**\n')
lines.append('| id | property | what fails | attributed by |')
lines.append('|---|---|---|---|')
for f in sorted(opened, key=lambda f: f['id']):
    by = 'oracle ' + '/'.join(f['oracle'] if isinstance(f['oracle'], list) else [f['oracle']])
    if f.get('requires'):
        by += '; tags ' + ', '.join(f['requires'])
    if f.get('site'):
        by += '; site ' + str(f['site'].get('func'))
    lines.append('| %s | %s | %s | %s |' % (f['id'], f['property'], esc(f['what'])[:420], esc(by)))
lines.append('')
lines.append('**Fixed (suppress nothing; the recorded witness is replayed on every run and a failure is a VIOLATION again)**\n')
lines.append('| id | property | commit | what failed |')
lines.append('|---|---|---|---|')
for f in sorted(fixed, key=lambda f: f['id']):
    what = re.sub(r'^fixed: property=\S+ \S+ ', '', f['what'])
    lines.append('| %s | %s | `%s` | %s |' % (f['id'], f['property'], f.get('commit', '?'), esc(what)[:420]))
lines.append('')
lines.append('### 11.2 Seeded changes and what catches them (generated from `seeded/*/meta.json`)\n')
lines.append('Each change was written by a fresh sub-agent that saw only the property text and a scratch worktree; it compiles, keeps the suite at "2 failed, 410 passed" and needs something specific to manifest. Applied with `git -C /repo apply`, checked, reverted; never committed to /repo.\n')
lines.append('| seed | needs to manifest | caught by | note |')
lines.append('|---|---|---|---|')
for d in sorted(glob.glob(os.path.join(ROOT, 'seeded', '*'))):
    mp = os.path.join(d, 'meta.json')
    if not os.path.exists(mp):
        lines.append('| %s | (no meta.json) | - | - |' % os.path.basename(d))
        continue
    m = json.load(open(mp))
    lines.append('| %s | %s | %s | %s |' % (m['seed'], esc(m['needs_to_manifest'])[:300], esc(m['caught_by'])[:200], esc(m.get('note', ''))[:400]))
lines.append('')
text = '\n'.join(lines)
p = os.path.join(ROOT, 'DESIGN.md')
s = open(p).read()
b, e = '<!-- BEGIN GENERATED -->', '<!-- END GENERATED -->'
assert b in s and e in s
s = s[: s.index(b) + len(b)] + '\n' + text + '\n' + s[s.index(e) :]
open(p, 'w').write(s)
print('DESIGN.md tables regenerated: %d open, %d fixed, %d seeds' % (len(opened), len(fixed), len(glob.glob(os.path.join(ROOT, 'seeded', '*')))))
