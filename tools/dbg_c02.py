import sys, re, collections
sys.path.insert(0,'/verif')
from engine import core
from gen import sheets as G
from models import projection as P
from checks import c02
cssutils,_=core.import_repo()
import random
N=int(sys.argv[1]); axes=sys.argv[2].split(',') if len(sys.argv)>2 else c02.AXES
groups=collections.defaultdict(list)
parser=cssutils.CSSParser()
for i in range(N):
    rng=random.Random('dbg%d'%i)
    g=G.Gen(rng, namespaces=rng.random()<0.5)
    st=g.sheet()
    for ax in axes:
        text,rf=G.render2(st, G.style_with(ax), random.Random('r%d%s'%(i,ax)))
        core.canonical_state(cssutils)
        try:
            sh=parser.parseString(text)
            got=P.project(sh)
        except Exception as e:
            groups['EXC '+type(e).__name__+str(e)[:60]].append((ax,text)); continue
        d=P.diff(c02.P_norm(got), c02.P_norm(G.expected(st)))
        if d and (c02.features_of(st, 'neutral')|rf):
            groups['KNOWN '+','.join(sorted(c02.features_of(st,'neutral')|rf))].append((ax,text)); continue
        if d:
            key=re.sub(r'\d+','N',d.split(':')[0])+' :: '+re.sub(r'\d+','N',d.split(':',1)[1])[:90]
            groups[ax+' '+key].append((ax,text,d))
for k,v in sorted(groups.items(), key=lambda kv:-len(kv[1]))[:int(sys.argv[3]) if len(sys.argv)>3 else 25]:
    print(len(v), k)
    print('      ', repr(v[0][1][:int(sys.argv[4]) if len(sys.argv)>4 else 200]))
    if len(v[0])>2: print('      ', v[0][2][:300])
