#!/venv/bin/python
"""developer helper: replay the C11 replay files and print a full text diff of the sheet around the rejected call"""
import sys, json, glob, difflib, random
sys.path.insert(0, '/verif')
from engine import core
from checks import c11, domwalk as W
c, _ = core.import_repo()
for f in sorted(glob.glob('/verif/evidence/replays/C11/*.json'))[: int(sys.argv[1]) if len(sys.argv) > 1 else 10]:
    d = json.load(open(f))
    case = d['case']
    print('=====', d['oracle'], json.dumps(case)[:300] if case.get('kind') == 'battery' else case['ops'][-3:])
    if case.get('kind') == 'battery':
        continue
    core.canonical_state(c)
    w = W.Walk(core.Ctx('C11', 'quick', 0), c, 'none', random.Random(0))
    w.start(case['seed'])
    ops = case['ops'][: case['failed_at'] + 1]
    for op in ops[:-1]:
        c.log.raiseExceptions = True
        w.apply(list(op))
    a = w.sheet.cssText.decode()
    sa = W.snapshot(w.sheet)
    c.log.raiseExceptions = True
    print('   last:', ops[-1], w.apply(list(ops[-1])))
    b = w.sheet.cssText.decode()
    sb = W.snapshot(w.sheet)
    print('\n'.join(difflib.unified_diff(a.split('\n'), b.split('\n'), lineterm='', n=1)))
    for k in sa:
        if sa[k] != sb[k] and k != 'cssText':
            print('   differs:', k, str(sa[k])[:300], '\n      ->', str(sb[k])[:300])
    # which op leaves the variables stale?
    core.canonical_state(c)
    w = W.Walk(core.Ctx('C11', 'quick', 0), c, 'none', random.Random(0))
    w.start(case['seed'])
    for op in ops[:-1]:
        c.log.raiseExceptions = True
        r = w.apply(list(op))
        a = w.sheet.cssText
        import copy
        old = w.sheet._variables
        w.sheet._updateVariables()
        b = w.sheet.cssText
        if a != b:
            print('   STALE after', op, r)
            break
