import sys, re, collections, random
sys.path.insert(0,'/verif')
from engine import core
from gen import sheets as G
from models import projection as P
from checks import c02
cssutils,_=core.import_repo()
N=int(sys.argv[1]); ax=sys.argv[2]; shown=0
parser=cssutils.CSSParser()
for i in range(N):
    rng=random.Random('dbg%d'%i)
    g=G.Gen(rng, namespaces=rng.random()<0.5)
    st=g.sheet()
    text,rf=G.render2(st, G.style_with(ax), random.Random('r%d%s'%(i,ax)))
    core.canonical_state(cssutils)
    with core.LogCapture(cssutils) as log:
        sh=parser.parseString(text)
    d=P.diff(c02.P_norm(P.project(sh)), c02.P_norm(G.expected(st)))
    if d and not (c02.features_of(st,'neutral')|rf):
        errs=[e for e in log.errors() if 'Invalid value' not in e and 'Unknown Property' not in e]
        print(i, d[:150]); 
        for e in errs[:3]: print('    ERR', e[:260])
        shown+=1
        if shown>=int(sys.argv[3]): break
