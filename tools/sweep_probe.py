"""developer helper: CPU time of one C01 sweep family at growing k (each run under a 15 s CPU limit)"""
import sys, time
sys.path.insert(0, '/verif')
from engine import core
from checks import c01
cssutils, _ = core.import_repo()
for name in sys.argv[1:]:
    fn, kmax = c01.FAMILIES[name]
    for k in (4, 8, 12, 16, 18, 20, 40):
        if k > kmax:
            break
        t = fn(k)
        t0 = time.process_time()
        try:
            with core.cpu_limit(15):
                s = cssutils.parseString(t)
                s.cssText
            r = 'ok'
        except core.CpuBudgetExceeded:
            r = 'CPU-LIMIT'
        print(name, k, r, round(time.process_time() - t0, 2))
        if r != 'ok':
            break
