#!/venv/bin/python
"""developer helper: replay the recorded witnesses of one property against a tree (VERIF_REPO) and say which fire"""
import sys, os, json, importlib
sys.path.insert(0, '/verif')
from engine import core
pid = sys.argv[1]
mod = importlib.import_module('checks.' + pid.lower())
d = json.load(open('/verif/known_findings.json'))
for f in d['findings']:
    if f['property'] != pid or 'case' not in f:
        continue
    sub = core.Ctx(pid, 'quick', 0, 0, 1)
    try:
        mod.replay(sub, core.unjson(f['case']))
    except Exception as e:
        print(f['id'], 'REPLAY-EXC', type(e).__name__, e)
        continue
    print(f['id'], f['status'], 'fires=%s' % sorted({v['oracle'] for v in sub.violations}))
