#!/bin/sh
# usage: keepseed4.sh <PROP> <A|B>  - round 4: validates a sub-agent's seeded change in /tmp/wt/r2-<PROP> (suite unchanged with it, demo fails
#   with it and passes without) and stores it under /verif/seeded/<PROP>-<G|H>/
prop=$1; x=$2; wt=/tmp/wt/r4-$prop
case $x in A) y=G;; B) y=H;; *) exit 2;; esac
cd $wt || exit 2
git checkout -q -- .
git apply "$wt/mut$x.diff" || { echo "$prop-$y: patch does not apply in worktree"; exit 2; }
suite=$(PYTHONPATH=$wt /venv/bin/python -m pytest -q -p no:cacheprovider 2>&1 | tail -1)
PYTHONPATH=$wt /venv/bin/python demo$x.py >/tmp/wt/demo_with.out 2>&1; rc_with=$?
git checkout -q -- .
PYTHONPATH=$wt /venv/bin/python demo$x.py >/tmp/wt/demo_without.out 2>&1; rc_without=$?
echo "$prop-$y suite with change: $suite | demo with change rc=$rc_with; without rc=$rc_without"
case "$suite" in *"2 failed, 410 passed"*) ;; *) echo "REJECT: suite changed"; exit 1;; esac
[ $rc_with -ne 0 ] && [ $rc_without -eq 0 ] || { echo "REJECT: demo does not discriminate"; exit 1; }
d=/verif/seeded/$prop-$y; mkdir -p $d
cp $wt/mut$x.diff $d/patch.diff; cp $wt/demo$x.py $d/demo.py
echo "kept in $d"
