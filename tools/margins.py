#!/usr/bin/env python3
"""developer helper: run a check's quick tier over several seeds and print the counters named in MIN_EVENTS with their thresholds"""
import importlib, json, os, subprocess, sys
sys.path.insert(0, '/verif')
ids = sys.argv[1:]
for pid in ids:
    mod = importlib.import_module('checks.' + pid.lower())
    mins = mod.MIN_EVENTS['quick']
    seen = {k: [] for k in mins}
    rcs = []
    for seed in (1, 2, 3, 4):
        env = dict(os.environ, VERIF_SEED=str(seed))
        r = subprocess.run(['/venv/bin/python', '-B', '/verif/engine/run.py', pid, '--tier', 'quick'], env=env, capture_output=True, text=True)
        rcs.append(r.returncode)
        c = json.load(open('/verif/evidence/%s.json' % pid))['coverage']['counters']
        for k in mins:
            seen[k].append(c.get(k, 0))
    print(pid, 'exit codes', rcs)
    for k, need in mins.items():
        lo = min(seen[k])
        flag = '' if lo >= need * 1.25 else '   <-- margin below 25%'
        print('   %-32s need %-8d observed min %-8d%s' % (k, need, lo, flag))
