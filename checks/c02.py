"""C02 - the parsed DOM is what a well-formed source denotes (DESIGN section 6, C02).

Construction oracle: an abstract sheet A is rendered under independently switchable spelling styles; every
rendering is parsed by the real parser and its spelling-invariant projection (models/projection.py) must equal
expected(A), which is computed from the abstract tree alone.  Parser options: parseComments off removes exactly
the comments, validate off changes nothing."""

from engine import core
from gen import sheets as G
from models import projection as P

PROPERTY = 'C02'
LEVEL = 'exploration'
LEVEL_TEXT = (
    'Each generated abstract stylesheet (style/@media incl. nested/@import/@namespace/@page with margin boxes/@font-face/@charset/unknown '
    'rules/comments; CSS3 selectors; values of all component kinds with space/comma/slash separators) is rendered in 9 spellings '
    '(neutral, one per spelling axis, all axes at once) and each rendering is parsed by the real parser; the projection of the DOM is '
    'compared with the independently computed expectation, also under parseComments=False and validate=False. Every third sheet is also '
    'brought in through each documented door (bytes, explicit encoding, parseFile, parseUrl, CSSStyleSheet.cssText, cssutils.parseString, a '
    'parser used before) and every second one feeds a re-assignment stream: rule.cssText = <another rule of its kind> on live rules of a parsed '
    'sheet and on freshly constructed rule objects must leave exactly what the new text denotes.'
)
LEVEL_NOTE = 'trusted: gen/sheets.py (abstract grammar, renderer, expectation) and models/projection.py (reads the DOM through accessors and seq items)'
TECHNIQUE = 'runtime monitoring: construction oracle + metamorphic spelling invariance over generated stylesheets'
DESIGN_REF = 'DESIGN.md section 6, C02; 5.1, 5.2'
RULE = (
    'abstract sheets of 1-6 statements from gen/sheets.py x renderings {neutral, ws, ws-min, comments, case, quotes, escapes, numspell, '
    'semicolons, all}; distinct_nontrivial = distinct (abstract sheet with >= 2 statements, style) pairs whose rendering was parsed and judged'
)
ASSUMPTIONS = [
    'type/class/id names, custom idents, string/url content are compared exactly; media types, pseudo names, units, function names lower-cased',
    'a comment directly after a declaration value belongs to that declaration (only comments after { or ; are block items)',
    'zero with a length unit equals unit-less zero (stated by C18)',
]
MIN_EVENTS = {'quick': {'oracle.construction': 15000, 'oracle.nocomments': 1000, 'oracle.novalidate': 1000, 'oracle.entry-point': 3000, 'oracle.reassign': 5000},
              'thorough': {'oracle.construction': 400000, 'oracle.nocomments': 30000, 'oracle.novalidate': 30000, 'oracle.entry-point': 70000, 'oracle.reassign': 120000}}

AXES = ['neutral', 'ws', 'ws-min', 'comments', 'case', 'quotes', 'escapes', 'numspell', 'semicolons', 'all']


def features_of(stmts, axis):
    """feature tags of a case: the spelling axis plus hostile constructs known findings are keyed on"""
    feats = set()
    if axis != 'neutral':
        feats.add('style.' + axis)
    def walk(sts):
        for st in sts:
            if st[0] == 'import' and st[3] and st[3][0][1] is None:
                feats.add('import.first-query-starts-with-paren')
            elif st[0] == 'style':
                for sel in st[1]:
                    for x in sel:
                        if not isinstance(x, str):
                            for p in x[1]:
                                if p[0] == 'not' and p[1][0] == 'pcf':
                                    feats.add('selector.not.functional-pseudo')
            elif st[0] == 'media':
                walk(st[2])

    walk(stmts)
    return feats


def judge(ctx, cssutils, parser, stmts, axis, rng, opts=(True, True), sample=False):
    style = G.style_with(axis)
    text, rfeats = G.render2(stmts, style, rng)
    comments, validate = opts
    ctx.count('evaluations')
    feats = features_of(stmts, axis) | rfeats
    case = {'kind': 'sheet', 'text': text, 'axis': axis, 'opts': list(opts), 'abstract': stmts, 'features': sorted(feats)}
    try:
        core.canonical_state(cssutils)
        with core.LogCapture(cssutils) as log:
            sheet = parser.parseString(text, validate=validate)
        got = P.project(sheet, comments=True)
    except Exception as e:
        ctx.violation('exception', case, {'tb': core.short_tb(e)}, features=feats, site=core.raise_site(e))
        return
    exp = G.expected(stmts, comments=comments)
    ctx.count('oracle.construction')
    if not comments:
        ctx.count('oracle.nocomments')
    if not validate:
        ctx.count('oracle.novalidate')
    d = P.diff(P_norm(got), P_norm(exp))
    if len(stmts) >= 2:
        ctx.seen([core.h8(repr(stmts)), axis, list(opts)])
    if d is not None:
        ctx.violation('projection-vs-construction', case, {'diff': d, 'errors_logged': log.errors()[:5]}, features=feats)
    elif log.errors():
        ctx.count('wellformed-input-logged-error')
        if ctx.counters['wellformed-input-logged-error'] <= 3:
            ctx.note('well-formed input produced ERROR records: %r -> %r' % (text[:120], log.errors()[:2]))
    if sample:
        ctx.sample({'axis': axis, 'text': text})


ENTRY_POINTS = ['bytes', 'file', 'url', 'sheet-text', 'module', 'parser-reused', 'string-encoding-arg']
KIND_OF = {'style': 'CSSStyleRule', 'media': 'CSSMediaRule', 'page': 'CSSPageRule', 'fontface': 'CSSFontFaceRule', 'import': 'CSSImportRule',
           'unknown': 'CSSUnknownRule', 'comment': 'CSSComment', 'charset': 'CSSCharsetRule'}  # fmt: skip


def entry_points(ctx, cssutils, stmts, axis, rng, tmpdir):
    """the same source through every documented way in: the DOM is the one the source denotes whichever door it came through"""
    import os

    text, rfeats = G.render2(stmts, G.style_with(axis), rng)
    enc = stmts[0][1] if stmts and stmts[0][0] == 'charset' else 'utf-8'
    try:
        data = text.encode(enc)
    except UnicodeError:
        ctx.count('entry.skipped-not-encodable')
        return
    exp = P_norm(G.expected(stmts, comments=True))
    base = features_of(stmts, axis) | rfeats
    try:
        core.canonical_state(cssutils)
        if P_norm(P.project(cssutils.CSSParser().parseString(text))) != exp:
            ctx.count('entry.skipped-baseline-differs')  # the plain parse is wrong already: reported by the construction oracle
            return
    except Exception:
        ctx.count('entry.skipped-baseline-differs')
        return
    reused = cssutils.CSSParser()
    reused.parseString('a{left:0}@media tv{b{top:0}}/*c*/')
    for how in ENTRY_POINTS:
        feats = base | {'entry.' + how}
        case = {'kind': 'entry', 'how': how, 'text': text, 'encoding': enc, 'axis': axis, 'abstract': stmts, 'features': sorted(feats)}
        ctx.count('evaluations')
        try:
            core.canonical_state(cssutils)
            sheet = open_by(cssutils, how, text, data, enc, tmpdir, reused)
            got = P.project(sheet, comments=True)
        except Exception as e:
            ctx.violation('exception', case, {'tb': core.short_tb(e)}, features=feats, site=core.raise_site(e))
            continue
        ctx.count('oracle.entry-point')
        ctx.count('entry.' + how)
        want = exp
        if how == 'string-encoding-arg':
            # documented: an explicit encoding is recorded in the sheet as its @charset rule
            want = [['charset', enc.lower()]] + [x for x in exp if x[0] != 'charset']
        d = P.diff(P_norm(got), want)
        if len(stmts) >= 2:
            ctx.seen([core.h8(repr(stmts)), axis, how])
        if d is not None:
            ctx.violation('entry-point', case, {'diff': d}, features=feats)


def open_by(cssutils, how, text, data, enc, tmpdir, reused=None):
    import os

    if how == 'bytes':
        return cssutils.CSSParser().parseString(data)
    if how == 'string-encoding-arg':
        return cssutils.CSSParser().parseString(data, encoding=enc)
    if how == 'file':
        path = os.path.join(tmpdir, 'c02-entry.css')
        with open(path, 'wb') as f:
            f.write(data)
        return cssutils.CSSParser().parseFile(path)
    if how == 'url':
        main = 'http://verif.example/dir/sheet.css'
        return cssutils.CSSParser(fetcher=lambda url: (None, data) if url == main else (None, b'')).parseUrl(main)
    if how == 'sheet-text':
        sheet = cssutils.css.CSSStyleSheet()
        sheet.cssText = text
        return sheet
    if how == 'module':
        return cssutils.parseString(text)
    if how == 'parser-reused':
        return (reused or cssutils.CSSParser()).parseString(text)
    raise ValueError(how)


def flat_rules(rules):
    for r in rules:
        yield r
        if type(r).__name__ == 'CSSMediaRule':
            yield from flat_rules(r.cssRules)


def reassign(ctx, cssutils, stmts_a, stmts_b, axis, rng):
    """rule.cssText = <text of another rule of its kind> and <Class>(cssText=...): the object then denotes the new text and nothing of the old"""
    core.canonical_state(cssutils)
    try:
        sheet = cssutils.CSSParser().parseString(G.render(stmts_a, G.style_with('neutral'), rng))
    except Exception:
        return
    style = G.style_with(axis)
    by_kind = {}
    for st in stmts_b:
        by_kind.setdefault(KIND_OF.get(st[0]), []).append(st)
    live = list(flat_rules(sheet.cssRules))
    targets = [(r, 'live') for r in live]
    for cls in by_kind:
        if cls and cls != 'CSSComment':
            targets.append((getattr(cssutils.css, cls)(), 'fresh'))
    for r, origin in targets:
        cls = type(r).__name__
        for st in by_kind.get(cls, [])[:2]:
            if cls == 'CSSUnknownRule':
                # another at-keyword is another kind of rule (InvalidModificationErr by design)
                if origin == 'fresh':
                    r = cssutils.css.CSSUnknownRule()
                elif (r.atkeyword or '').lower() != '@' + st[1].lower():
                    continue
            text, rfeats = G.render2([st], style, rng)
            text = text.strip()
            exp = P_norm(G.expected([st], comments=True))
            try:
                core.canonical_state(cssutils)
                if P_norm(P.project(cssutils.CSSParser().parseString(text))) != exp:
                    ctx.count('reassign.skipped-baseline-differs')
                    continue
            except Exception:
                ctx.count('reassign.skipped-baseline-differs')
                continue
            feats = features_of([st], axis) | rfeats | {'reassign.' + origin, 'reassign.' + st[0]}
            case = {'kind': 'reassign', 'origin': origin, 'old_text': r.cssText if origin == 'live' else '', 'text': text, 'axis': axis, 'abstract': [st], 'features': sorted(feats)}
            ctx.count('evaluations')
            try:
                core.canonical_state(cssutils)
                r.cssText = text
                got = P.p_rules([r], True)
            except Exception as e:
                ctx.violation('exception', case, {'tb': core.short_tb(e)}, features=feats, site=core.raise_site(e))
                continue
            ctx.count('oracle.reassign')
            ctx.count('reassign.' + origin + '.' + st[0])
            ctx.seen([core.h8(repr(st)), axis, origin, 'reassign'])
            d = P.diff(P_norm(got), exp)
            if d is not None:
                ctx.violation('reassign', case, {'diff': d}, features=feats)


def P_norm(x):
    """tuples/lists unified so that projections from both sides compare structurally"""
    if isinstance(x, (list, tuple)):
        return [P_norm(i) for i in x]
    if isinstance(x, dict):
        return {k: P_norm(v) for k, v in x.items()}
    return x


def run_worker(ctx):
    cssutils, _ = core.import_repo()
    parsers = {
        (True, True): cssutils.CSSParser(),
        (False, True): cssutils.CSSParser(parseComments=False),
        (True, False): cssutils.CSSParser(validate=False),
    }
    import tempfile, shutil

    tmpdir = tempfile.mkdtemp(prefix='verif-c02-')
    n = 2500 if ctx.tier == 'quick' else 60000
    for i in range(n):
        if not ctx.mine(i):
            continue
        rng = ctx.rng('sheet', i)
        g = G.Gen(rng, hostile=False, namespaces=rng.random() < 0.5)
        stmts = g.sheet()
        for axis in AXES:
            judge(ctx, cssutils, parsers[(True, True)], stmts, axis, ctx.rng('render', i * 100 + AXES.index(axis)), sample=(i < 2 and axis in ('neutral', 'all')))
        axis = rng.choice(AXES)
        judge(ctx, cssutils, parsers[(False, True)], stmts, axis, ctx.rng('render-nc', i), opts=(False, True))
        judge(ctx, cssutils, parsers[(True, False)], stmts, axis, ctx.rng('render-nv', i), opts=(True, False))
        if i % 3 == 0:
            entry_points(ctx, cssutils, stmts, rng.choice(['neutral', 'all', axis]), ctx.rng('entry', i), tmpdir)
        if i % 2 == 0:
            g1 = G.Gen(ctx.rng('re-a', i), hostile=False, namespaces=False)
            g2 = G.Gen(ctx.rng('re-b', i), hostile=False, namespaces=False)
            reassign(ctx, cssutils, g1.sheet(), g2.sheet(), rng.choice(AXES), ctx.rng('re-r', i))
    shutil.rmtree(tmpdir, ignore_errors=True)


def replay(ctx, case):
    cssutils, _ = core.import_repo()
    if case.get('kind') in ('text-pair', 'text-count'):
        core.canonical_state(cssutils)
        parser = cssutils.CSSParser()
        got = P.project(parser.parseString(case['text']))
        feats = case.get('features', [])
        if case['kind'] == 'text-count':
            if len(got) != case['count']:
                ctx.violation('projection-vs-construction', case, {'rules': len(got), 'expected': case['count']}, features=feats)
        else:
            other = P.project(parser.parseString(case['same_as']))
            d = P.diff(P_norm(got), P_norm(other))
            if d is not None:
                ctx.violation('projection-vs-construction', case, {'diff': d}, features=feats)
        return
    if case.get('kind') == 'entry':
        import tempfile, shutil

        tmpdir = tempfile.mkdtemp(prefix='verif-c02-')
        try:
            core.canonical_state(cssutils)
            text = case['text']
            sheet = open_by(cssutils, case['how'], text, text.encode(case['encoding']), case['encoding'], tmpdir)
            d = P.diff(P_norm(P.project(sheet)), P_norm(G.expected(tuplify(case['abstract']), comments=True)))
            if d is not None:
                ctx.violation('entry-point', case, {'diff': d}, features=case.get('features', []))
        finally:
            shutil.rmtree(tmpdir, ignore_errors=True)
        return
    if case.get('kind') == 'reassign':
        core.canonical_state(cssutils)
        st = tuplify(case['abstract'])[0]
        if case['origin'] == 'live':
            r = cssutils.parseString(case['old_text']).cssRules[0]
        else:
            r = getattr(cssutils.css, KIND_OF[st[0]])()
        r.cssText = case['text']
        d = P.diff(P_norm(P.p_rules([r], True)), P_norm(G.expected([st], comments=True)))
        if d is not None:
            ctx.violation('reassign', case, {'diff': d}, features=case.get('features', []))
        return
    opts = tuple(case.get('opts', (True, True)))
    parser = cssutils.CSSParser(parseComments=opts[0], validate=opts[1])
    stmts = tuplify(case['abstract'])
    core.canonical_state(cssutils)
    sheet = parser.parseString(case['text'], validate=opts[1])
    got = P.project(sheet)
    exp = G.expected(stmts, comments=opts[0])
    d = P.diff(P_norm(got), P_norm(exp))
    if d is not None:
        ctx.violation('projection-vs-construction', case, {'diff': d}, features=case.get('features') or features_of(stmts, case.get('axis', 'neutral')))


def tuplify(x):
    if isinstance(x, list):
        return [tuplify(i) for i in x]
    return x
