"""C02 - the parsed DOM is what a well-formed source denotes (DESIGN section 6, C02).

Construction oracle: an abstract sheet A is rendered under independently switchable spelling styles; every
rendering is parsed by the real parser and its spelling-invariant projection (models/projection.py) must equal
expected(A), which is computed from the abstract tree alone.  Parser options: parseComments off removes exactly
the comments, validate off changes nothing."""

from engine import core
from gen import sheets as G
from models import projection as P

PROPERTY = 'C02'
LEVEL = 'exploration'
LEVEL_TEXT = (
    'Each generated abstract stylesheet (style/@media incl. nested/@import/@namespace/@page with margin boxes/@font-face/@charset/unknown '
    'rules/comments; CSS3 selectors; values of all component kinds with space/comma/slash separators) is rendered in 9 spellings '
    '(neutral, one per spelling axis, all axes at once) and each rendering is parsed by the real parser; the projection of the DOM is '
    'compared with the independently computed expectation, also under parseComments=False and validate=False.'
)
LEVEL_NOTE = 'trusted: gen/sheets.py (abstract grammar, renderer, expectation) and models/projection.py (reads the DOM through accessors and seq items)'
TECHNIQUE = 'runtime monitoring: construction oracle + metamorphic spelling invariance over generated stylesheets'
DESIGN_REF = 'DESIGN.md section 6, C02; 5.1, 5.2'
RULE = (
    'abstract sheets of 1-6 statements from gen/sheets.py x renderings {neutral, ws, ws-min, comments, case, quotes, escapes, numspell, '
    'semicolons, all}; distinct_nontrivial = distinct (abstract sheet with >= 2 statements, style) pairs whose rendering was parsed and judged'
)
ASSUMPTIONS = [
    'type/class/id names, custom idents, string/url content are compared exactly; media types, pseudo names, units, function names lower-cased',
    'a comment directly after a declaration value belongs to that declaration (only comments after { or ; are block items)',
    'zero with a length unit equals unit-less zero (stated by C18)',
]
MIN_EVENTS = {'quick': {'oracle.construction': 15000, 'oracle.nocomments': 1000, 'oracle.novalidate': 1000},
              'thorough': {'oracle.construction': 400000, 'oracle.nocomments': 30000, 'oracle.novalidate': 30000}}

AXES = ['neutral', 'ws', 'ws-min', 'comments', 'case', 'quotes', 'escapes', 'numspell', 'semicolons', 'all']


def features_of(stmts, axis):
    """feature tags of a case: the spelling axis plus hostile constructs known findings are keyed on"""
    feats = set()
    if axis != 'neutral':
        feats.add('style.' + axis)
    def walk(sts):
        for st in sts:
            if st[0] == 'import' and st[3] and st[3][0][1] is None:
                feats.add('import.first-query-starts-with-paren')
            elif st[0] == 'style':
                for sel in st[1]:
                    for x in sel:
                        if not isinstance(x, str):
                            for p in x[1]:
                                if p[0] == 'not' and p[1][0] == 'pcf':
                                    feats.add('selector.not.functional-pseudo')
            elif st[0] == 'media':
                walk(st[2])

    walk(stmts)
    return feats


def judge(ctx, cssutils, parser, stmts, axis, rng, opts=(True, True), sample=False):
    style = G.style_with(axis)
    text, rfeats = G.render2(stmts, style, rng)
    comments, validate = opts
    ctx.count('evaluations')
    feats = features_of(stmts, axis) | rfeats
    case = {'kind': 'sheet', 'text': text, 'axis': axis, 'opts': list(opts), 'abstract': stmts, 'features': sorted(feats)}
    try:
        core.canonical_state(cssutils)
        with core.LogCapture(cssutils) as log:
            sheet = parser.parseString(text, validate=validate)
        got = P.project(sheet, comments=True)
    except Exception as e:
        ctx.violation('exception', case, {'tb': core.short_tb(e)}, features=feats, site=core.raise_site(e))
        return
    exp = G.expected(stmts, comments=comments)
    ctx.count('oracle.construction')
    if not comments:
        ctx.count('oracle.nocomments')
    if not validate:
        ctx.count('oracle.novalidate')
    d = P.diff(P_norm(got), P_norm(exp))
    if len(stmts) >= 2:
        ctx.seen([core.h8(repr(stmts)), axis, list(opts)])
    if d is not None:
        ctx.violation('projection-vs-construction', case, {'diff': d, 'errors_logged': log.errors()[:5]}, features=feats)
    elif log.errors():
        ctx.count('wellformed-input-logged-error')
        if ctx.counters['wellformed-input-logged-error'] <= 3:
            ctx.note('well-formed input produced ERROR records: %r -> %r' % (text[:120], log.errors()[:2]))
    if sample:
        ctx.sample({'axis': axis, 'text': text})


def P_norm(x):
    """tuples/lists unified so that projections from both sides compare structurally"""
    if isinstance(x, (list, tuple)):
        return [P_norm(i) for i in x]
    if isinstance(x, dict):
        return {k: P_norm(v) for k, v in x.items()}
    return x


def run_worker(ctx):
    cssutils, _ = core.import_repo()
    parsers = {
        (True, True): cssutils.CSSParser(),
        (False, True): cssutils.CSSParser(parseComments=False),
        (True, False): cssutils.CSSParser(validate=False),
    }
    n = 2500 if ctx.tier == 'quick' else 60000
    for i in range(n):
        if not ctx.mine(i):
            continue
        rng = ctx.rng('sheet', i)
        g = G.Gen(rng, hostile=False, namespaces=rng.random() < 0.5)
        stmts = g.sheet()
        for axis in AXES:
            judge(ctx, cssutils, parsers[(True, True)], stmts, axis, ctx.rng('render', i * 100 + AXES.index(axis)), sample=(i < 2 and axis in ('neutral', 'all')))
        axis = rng.choice(AXES)
        judge(ctx, cssutils, parsers[(False, True)], stmts, axis, ctx.rng('render-nc', i), opts=(False, True))
        judge(ctx, cssutils, parsers[(True, False)], stmts, axis, ctx.rng('render-nv', i), opts=(True, False))


def replay(ctx, case):
    cssutils, _ = core.import_repo()
    if case.get('kind') in ('text-pair', 'text-count'):
        core.canonical_state(cssutils)
        parser = cssutils.CSSParser()
        got = P.project(parser.parseString(case['text']))
        feats = case.get('features', [])
        if case['kind'] == 'text-count':
            if len(got) != case['count']:
                ctx.violation('projection-vs-construction', case, {'rules': len(got), 'expected': case['count']}, features=feats)
        else:
            other = P.project(parser.parseString(case['same_as']))
            d = P.diff(P_norm(got), P_norm(other))
            if d is not None:
                ctx.violation('projection-vs-construction', case, {'diff': d}, features=feats)
        return
    opts = tuple(case.get('opts', (True, True)))
    parser = cssutils.CSSParser(parseComments=opts[0], validate=opts[1])
    stmts = tuplify(case['abstract'])
    core.canonical_state(cssutils)
    sheet = parser.parseString(case['text'], validate=opts[1])
    got = P.project(sheet)
    exp = G.expected(stmts, comments=opts[0])
    d = P.diff(P_norm(got), P_norm(exp))
    if d is not None:
        ctx.violation('projection-vs-construction', case, {'diff': d}, features=case.get('features') or features_of(stmts, case.get('axis', 'neutral')))


def tuplify(x):
    if isinstance(x, list):
        return [tuplify(i) for i in x]
    return x
