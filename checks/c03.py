"""C03 - serialise -> parse is lossless, serialisation is a fixpoint (DESIGN section 6, C03).

For a DOM D (parsed from generated well-formed sheets in every spelling, from the shipped real-world sheets, and
after accepted DOM edits): t1 = D.cssText, D2 = parse(t1): project(D2) == project(D) and D2.cssText == t1.
The same for single nodes (rule, declaration block, selector, media list, property value) whose text is read and
set back on a fresh object of the same class."""

import os

from engine import core
from gen import sheets as G
from models import projection as P

PROPERTY = 'C03'
LEVEL = 'exploration'
LEVEL_TEXT = (
    'Round-trip monitor over DOMs from the C02 generator (all spellings), DOMs with one class of hostile content each (quotes, '
    'backslashes, line breaks, URLs needing quotes, multi-line comments, identifiers needing escapes, non-ASCII), the 53 shipped sheets, '
    'and DOMs after random accepted edits; both the sheet and every serialisable node kind are read and set back.'
)
LEVEL_NOTE = 'trusted: models/projection.py; byte comparison of the two serialisations'
TECHNIQUE = 'runtime monitoring: metamorphic round-trip oracle (projection equality + byte fixpoint) on sheets and single nodes'
DESIGN_REF = 'DESIGN.md section 6, C03'
RULE = (
    'DOM sources: (a) generated sheets x spellings, (b) generated sheets with one hostile content class, (c) shipped sheets/*.css, '
    '(d) sheets after 1-6 accepted DOM edits; node level: every rule, style declaration, selector, media list and property value of (a)-(c) '
    'set back on a fresh object. distinct_nontrivial = distinct serialisations t1 of DOMs with >= 2 rules that were reparsed and compared'
)
ASSUMPTIONS = [
    'the first parse may normalise (C02 business); C03 starts from the DOM',
    'node-level set-back of rules with namespace prefixes passes the sheet namespaces along, as the cssText setters document',
]
MIN_EVENTS = {
    'quick': {'oracle.sheet-roundtrip': 3000, 'oracle.node-roundtrip': 14000, 'oracle.shipped': 45, 'oracle.edited': 1200},
    'thorough': {'oracle.sheet-roundtrip': 60000, 'oracle.node-roundtrip': 190000, 'oracle.shipped': 45, 'oracle.edited': 24000},
}
HOSTILE_CLASSES = ['string', 'string-backslash', 'string-newline', 'url', 'url-backslash', 'url-control', 'comment', 'ident', 'nonascii', 'unknown-keyword']


def norm(x):
    if isinstance(x, (list, tuple)):
        return [norm(i) for i in x]
    if isinstance(x, dict):
        return {k: norm(v) for k, v in x.items()}
    return x


def has_linebreak(t):
    """a comment text that holds a line break once parsed: written literally or as an escape (escapes in comments are decoded by design)"""
    import re

    return '\n' in t or '\r' in t or '\f' in t or bool(re.search(r'\\0{0,5}[aAcCdD](?![0-9a-fA-F])', t))


def content_features(stmts, hc):
    """feature tags of hostile content actually present in the abstract sheet"""
    feats = set()

    def comp(c):
        k = c[0]
        if k == 'string':
            text(c[1], 'string')
        elif k == 'url':
            text(c[1], 'url')
        elif k == 'ident':
            ident(c[1])
        elif k == 'func':
            for a in c[2]:
                comp(a)

    def text(t, kind):
        if '\\' in t:
            feats.add(kind + '.backslash')

    def ident(t):
        if t and not all((ch.isalnum() and ord(ch) < 128) or ch in '-_' or ord(ch) >= 0x80 for ch in t) or t[:1].isdigit() or (t[:1] == '-' and (t[1:2].isdigit() or t in ('-', '--'))):
            feats.add('ident.needs-escape')

    def items(its, in_block=True):
        for it in its:
            if it[0] == 'comment':
                if has_linebreak(it[1]):
                    feats.add('comment.multiline-in-block')
                comment(it[1])
            else:
                ident(it[1])
                for c in it[2]:
                    comp(c)

    def sel(s):
        for x in s:
            if isinstance(x, str):
                continue
            ts, parts = x
            if ts and ts[1] != '*':
                ident(ts[1])
            for p in parts:
                q = p[1] if p[0] == 'not' else p
                if q[0] in ('class', 'id'):
                    ident(q[1])
                elif q[0] == 'attr':
                    if q[4] is not None:
                        if q[5]:
                            text(q[4], 'string')
                        else:
                            ident(q[4])
                elif len(q) == 2 and q[0] not in ('pc', 'pe', 'pcf') and isinstance(q[1], str) and q[1] != '*':
                    ident(q[1])

    def comment(t):
        import re

        # a backslash directly in front of a character the sheet's encoding may have to write as an escape
        if re.search(r'\\[^\x00-\x7f]', t):
            feats.add('comment.backslash-before-nonascii')

    def walk(sts, nested=False):
        for st in sts:
            k = st[0]
            if k == 'comment':
                if nested and has_linebreak(st[1]):
                    feats.add('comment.multiline-in-block')
                comment(st[1])
            elif k == 'style':
                for s in st[1]:
                    sel(s)
                items(st[2])
            elif k == 'media':
                walk(st[2], True)
            elif k == 'page':
                items(st[3])
                for b, bi in st[4]:
                    items(bi)
            elif k == 'fontface':
                items(st[1])
            elif k == 'import':
                text(st[1], 'url')
            elif k == 'unknown':
                if st[1].lower() == '@charset':
                    feats.add('unknown.charset-in-other-letter-case')
                for c in st[2]:
                    comp(c)

    walk(stmts)
    return feats


def dom_features(proj):
    """features read off the DOM itself: a comment inside a block that contains a line break (however it was written)"""
    feats = set()

    def items(its):
        for it in its:
            if it and it[0] == 'comment' and '\n' in it[1]:
                feats.add('comment.multiline-in-block')

    def rules(rs, nested):
        for r in rs:
            k = r[0]
            if k == 'comment' and nested and '\n' in r[1]:
                feats.add('comment.multiline-in-block')
            elif k == 'style':
                items(r[2])
            elif k == 'media':
                rules(r[2], True)
            elif k == 'page':
                items(r[2])
                for b in r[3]:
                    items(b[1])
            elif k == 'fontface':
                items(r[1])
            elif k == 'import' and r[2] and r[2][0][1] is None and r[2][0][0] is None and r[2][0][2]:
                # (recorded for C02: an @import whose first media query starts with "(" is dropped by the parser)
                feats.add('import.first-query-starts-with-paren')

    rules(proj, False)
    return feats


def live_features(rules):
    """features read off the live objects: a style rule whose first selector begins with a comment (reachable by edits only: the
    parser gives a comment in front of a rule to the rule list)"""
    feats = set()
    for r in rules:
        try:
            if r.type == r.STYLE_RULE and r.selectorList.length and r.selectorList[0].seq and r.selectorList[0].seq[0].type == 'COMMENT':
                feats.add('selector.first-begins-with-comment')
            elif r.type == r.MEDIA_RULE:
                feats |= live_features(r.cssRules)
        except Exception:
            pass
    return feats


def nonempty_rules(rules):
    """rules whose own serialisation is non-empty (empty rules are dropped by the default preference keepEmptyRules=False,
    which is C06's business); nested lists are filtered the same way"""
    out = []
    for r in rules:
        try:
            if not r.cssText:
                continue
        except Exception:
            pass
        out.append(r)
    return out


def project_nonempty_rules(rules):
    res = []
    for r in nonempty_rules(rules):
        pr = P.p_rules([r])
        if pr and pr[0][0] == 'media':
            pr = [('media', pr[0][1], project_nonempty_rules(r.cssRules))]
        res.extend(pr)
    return res


def project_nonempty(sheet):
    return project_nonempty_rules(sheet.cssRules)


def roundtrip_sheet(ctx, cssutils, sheet, origin, feats, case_extra=None, counter='oracle.sheet-roundtrip', prefs=None):
    """the core oracle; returns t1"""
    ctx.count('evaluations')
    ctx.count(counter)
    case = {'kind': 'roundtrip', 'origin': origin}
    case.update(case_extra or {})
    try:
        core.canonical_state(cssutils)
        for k, v in (prefs or {}).items():
            setattr(cssutils.ser.prefs, k, v)
        p1 = norm(project_nonempty(sheet))
        t1 = sheet.cssText
        with core.LogCapture(cssutils) as log:
            sheet2 = cssutils.parseString(t1)
        p2 = norm(project_nonempty(sheet2))
        t2 = sheet2.cssText
    except Exception as e:
        ctx.violation('roundtrip.exception', case, {'tb': core.short_tb(e)}, features=feats, site=core.raise_site(e))
        return None
    case['t1'] = t1.decode('utf-8', 'replace')
    feats = sorted(set(feats) | dom_features(p1) | live_features(sheet.cssRules))
    d = P.diff(p1, p2)
    if d is not None:
        ctx.violation('roundtrip.projection', case, {'diff': d, 'errors_on_reparse': log.errors()[:4]}, features=feats)
    elif t2 != t1:
        k = next((i for i in range(min(len(t1), len(t2))) if t1[i] != t2[i]), min(len(t1), len(t2)))
        ctx.violation('roundtrip.fixpoint', case, {'at': k, 't1': t1[max(0, k - 40) : k + 40].decode('utf-8', 'replace'), 't2': t2[max(0, k - 40) : k + 40].decode('utf-8', 'replace')}, features=feats)
    if len(sheet.cssRules) >= 2:
        ctx.seen(core.h8(t1))
    return t1


def node_roundtrips(ctx, cssutils, sheet, feats, origin, prefs=None):
    """rule / declaration block / selector / media list / property value read and set back on a fresh object"""
    css = cssutils.css
    nsmap = None
    try:
        nsmap = dict(sheet.namespaces.items()) if hasattr(sheet, 'namespaces') else {}
    except Exception:
        nsmap = {}

    def check(kind, make, text_of, proj_of, node, extra=None):
        ctx.count('evaluations')
        ctx.count('oracle.node-roundtrip')
        ctx.count('node.' + kind)
        case = {'kind': 'node', 'node': kind, 'origin': origin}
        try:
            core.canonical_state(cssutils)
            for k, v in (prefs or {}).items():
                setattr(cssutils.ser.prefs, k, v)
            t1 = text_of(node)
            if not t1:
                return
            case['text'] = t1
            fresh = make(t1)
            t2 = text_of(fresh)
            pa, pb = norm(proj_of(node)), norm(proj_of(fresh))
        except Exception as e:
            ctx.violation('node.exception', case, {'tb': core.short_tb(e)}, features=feats, site=core.raise_site(e))
            return
        d = P.diff(pa, pb)
        if d is not None:
            ctx.violation('node.projection', case, {'diff': d}, features=feats)
        elif t1 != t2:
            ctx.violation('node.fixpoint', case, {'t1': t1[:300], 't2': t2[:300]}, features=feats)

    def rules(rs, depth=0):
        for r in rs:
            cls = type(r).__name__
            if cls in ('CSSStyleRule', 'CSSMediaRule', 'CSSPageRule', 'CSSFontFaceRule', 'CSSImportRule', 'CSSNamespaceRule', 'CSSUnknownRule', 'CSSComment', 'CSSCharsetRule'):

                def make(t, cls=cls):
                    fresh = getattr(css, cls)()
                    if cls == 'CSSStyleRule' and nsmap:
                        fresh.cssText = (t, nsmap)
                    else:
                        fresh.cssText = t
                    return fresh

                if not (cls == 'CSSMediaRule' and nsmap):  # a detached @media has no way to receive the sheet's namespaces
                    # (a nested rule that serialises as nothing - emptied by the parser - is not in the text: compared like at sheet level)
                    check('rule.' + cls, make, lambda n: n.cssText, lambda n: project_nonempty_rules([n]), r)
            if cls == 'CSSStyleRule':
                style(r.style)
                for s in r.selectorList:
                    if not nsmap:
                        check('selector', lambda t: css.Selector(selectorText=t), lambda n: n.selectorText, P.p_selector, s)
                    else:
                        check('selector', lambda t: css.Selector(selectorText=(t, nsmap)), lambda n: n.selectorText, P.p_selector, s)
            elif cls == 'CSSMediaRule':
                check('medialist', lambda t: cssutils.stylesheets.MediaList(mediaText=t), lambda n: n.mediaText, P.p_media, r.media)
                if depth < 2:
                    rules(r.cssRules, depth + 1)
            elif cls == 'CSSImportRule':
                check('medialist', lambda t: cssutils.stylesheets.MediaList(mediaText=t), lambda n: n.mediaText, P.p_media, r.media)
            elif cls in ('CSSPageRule', 'CSSFontFaceRule'):
                style(r.style)

    def style(st):
        check('style', lambda t: css.CSSStyleDeclaration(cssText=t), lambda n: n.cssText, lambda n: P.p_items(n), st)
        for prop in st.getProperties(all=True)[:4]:
            check('value', lambda t: css.PropertyValue(cssText=t), lambda n: n.cssText, lambda n: P.p_propertyvalue(n), prop.propertyValue)

    rules(sheet.cssRules)


def shipped(ctx, cssutils):
    d = os.path.join(core.REPO, 'sheets')
    files = sorted(f for f in os.listdir(d) if f.endswith('.css'))
    for i, fn in ctx.share(files):
        with open(os.path.join(d, fn), 'rb') as f:
            data = f.read()
        try:
            core.canonical_state(cssutils)
            sheet = cssutils.parseString(data)
        except UnicodeDecodeError:
            sheet = cssutils.parseString(data, encoding='latin-1')
        feats = ['shipped.' + fn] if fn == 'acid2.css' else []
        # the DOM of the first parse is the starting point; its serialisation must be a fixpoint
        # (@variables are resolved away by the default preference resolveVariables=True, by design: switched off here)
        roundtrip_sheet(ctx, cssutils, sheet, 'shipped:' + fn, feats, counter='oracle.shipped', prefs={'resolveVariables': False})
        if len(data) < 30000:
            node_roundtrips(ctx, cssutils, sheet, feats, 'shipped:' + fn, prefs={'resolveVariables': False})


EDITS = ['setprop', 'removeprop', 'appendsel', 'insertrule', 'deleterule', 'setmedia', 'setmedia', 'mediumedit', 'mediumedit', 'addcomment', 'setvalue', 'importedit', 'importedit', 'blocktext', 'selectortext', 'pageedit', 'encoding', 'insertobject', 'insertobject']


def random_edit(rng, cssutils, sheet):
    """one accepted public DOM edit; returns a description or None when it was rejected/not applicable"""
    import xml.dom

    rs = list(sheet.cssRules)
    kind = rng.choice(EDITS)
    try:
        if kind == 'setprop':
            srs = [r for r in rs if r.type == r.STYLE_RULE]
            if not srs:
                return None
            r = rng.choice(srs)
            name = rng.choice(['color', 'margin', 'x-zz', 'content', 'COLOR'])
            val = rng.choice(['red', '1px 2px', '"s\'q"', 'url(a b.png)', 'f(1, 2)', '#AABBCC', '0.50em', 'rgb(1,2,3)'])
            r.style.setProperty(name, val, rng.choice(['', 'important']))
            return [kind, name, val]
        if kind == 'removeprop':
            srs = [r for r in rs if r.type == r.STYLE_RULE and r.style.length]
            if not srs:
                return None
            r = rng.choice(srs)
            name = r.style.item(rng.randrange(r.style.length))
            r.style.removeProperty(name)
            return [kind, name]
        if kind == 'appendsel':
            srs = [r for r in rs if r.type == r.STYLE_RULE]
            if not srs:
                return None
            t = rng.choice(['x.y', 'a > b', '#i:hover', 'li:first-child', 'q[r="s t"]', '*'])
            rng.choice(srs).selectorList.appendSelector(t)
            return [kind, t]
        if kind == 'insertrule':
            t = rng.choice(['zz{top:0}', '@media tv{zq{left:0}}', '/*ins*/', '@page :left{margin:1px}', '@font-face{font-family:"F G"}', '@x y;'])
            sheet.add(t)
            return [kind, t]
        if kind == 'deleterule':
            if not rs:
                return None
            i = rng.randrange(len(rs))
            sheet.deleteRule(i)
            return [kind, i]
        if kind == 'setmedia':
            ms = [r for r in rs if r.type in (r.MEDIA_RULE, r.IMPORT_RULE)]
            if not ms:
                return None
            t = rng.choice(['print', 'tv, screen and (color)', 'not tty', 'all'])
            r = rng.choice(ms)
            if rng.random() < 0.5:
                r.media.mediaText = t
            else:
                r.media = t
            return [kind, t, type(r).__name__]
        if kind == 'mediumedit':
            # list-level edits of a parsed media list (its items may carry comments): append what is there already or something new, delete one
            ms = [r for r in rs if r.type in (r.MEDIA_RULE, r.IMPORT_RULE) and r.media.length]
            if not ms:
                return None
            r = rng.choice(ms)
            present = [r.media.item(i) for i in range(r.media.length) if r.media.item(i)]
            how = rng.choice(['append-present', 'append-new', 'delete'])
            if how == 'append-present' and present:
                t = rng.choice(present)
                r.media.appendMedium(rng.choice([t, t.upper()]))
            elif how == 'delete' and len(present) > 1:
                t = rng.choice(present)
                r.media.deleteMedium(t)
            else:
                t = rng.choice(['aural', 'embossed', 'tty'])
                r.media.appendMedium(t)
            return [kind, how, t, type(r).__name__]
        if kind == 'importedit':
            ms = [r for r in rs if r.type == r.IMPORT_RULE]
            if not ms:
                return None
            r = rng.choice(ms)
            what = rng.choice(['href', 'name', 'media-append', 'media-delete'])
            if what == 'href':
                r.href = rng.choice(['n.css', 'a b.css', 'q(1).css', 'x"y.css'])
            elif what == 'name':
                r.name = rng.choice(['nm', 'a "b"', None, ''])
            elif what == 'media-append':
                r.media.appendMedium(rng.choice(['tv', 'print and (color)', 'handheld']))
            else:
                if r.media.length < 2:
                    return None  # (an emptied list and the list 'all' are the same media; how long each is belongs to C17)
                r.media.deleteMedium(r.media.item(0))
            return [kind, what]
        if kind == 'blocktext':
            srs = [r for r in rs if r.type in (r.STYLE_RULE, r.PAGE_RULE, r.FONT_FACE_RULE)]
            if not srs:
                return None
            t = rng.choice(['top:1px;left:2px', 'color:red;color:RGB(1,2,3)!important', '/*c*/content:"a;b"', 'src:url("a b.woff")', ''])
            rng.choice(srs).style.cssText = t
            return [kind, t]
        if kind == 'selectortext':
            srs = [r for r in rs if r.type == r.STYLE_RULE]
            if not srs:
                return None
            t = rng.choice(['x > y, z', 'a[b="c d"]', '*:not(p)', 'h1::first-line', 'q.r#s'])
            rng.choice(srs).selectorText = t
            return [kind, t]
        if kind == 'pageedit':
            ps = [r for r in rs if r.type == r.PAGE_RULE]
            if not ps:
                return None
            r = rng.choice(ps)
            what = rng.choice(['selector', 'addbox'])
            if what == 'selector':
                r.selectorText = rng.choice([':first', 'nm:left', '', ':right'])
            else:
                # (a box name the page does not have yet: the parser merges repeated boxes, the DOM API does not - a normalisation, not a loss)
                have = {getattr(m, 'margin', None) for m in r.cssRules}
                free = [b for b in ('@top-left', '@bottom-center', '@right-middle', '@top-right-corner') if b not in have]
                if not free:
                    return None
                r.add('%s{content:"e%d"}' % (rng.choice(free), rng.randint(0, 3)))
            return [kind, what]
        if kind == 'encoding':
            e = rng.choice(['utf-8', 'ascii', 'iso-8859-1', None])
            sheet.encoding = e
            if e in ('ascii', 'iso-8859-1') and rng.random() < 0.6:
                # characters the new encoding cannot hold, inside comments at rule and at declaration level
                sheet.add(cssutils.css.CSSComment('/* Gr\u00f6\u00dfe \u4e2d\u6587 %d */' % rng.randint(0, 9)))
                srs = [r for r in rs if r.type == r.STYLE_RULE]
                if srs:
                    r = rng.choice(srs)
                    r.style.cssText = r.style.cssText + ';/*\u0416 \u00e9*/'
                return [kind, e, 'comments']
            return [kind, e]
        if kind == 'addcomment':
            sheet.add(cssutils.css.CSSComment('/* e %d */' % rng.randint(0, 9)))
            return [kind]
        if kind == 'setvalue':
            srs = [r for r in rs if r.type == r.STYLE_RULE and r.style.length]
            if not srs:
                return None
            r = rng.choice(srs)
            p = r.style.getProperties()[0]
            v = rng.choice(['1px', 'a, b', '"x"', '10%'])
            p.value = v
            return [kind, p.name, v]
        if kind == 'insertobject':
            # a rule object that lives in another sheet (top level, inside @media, inside a nested @media) is handed to this sheet or to
            # one of its @media rules; its selectors were resolved there, under another prefix.  Accepted or refused (NamespaceErr when
            # this sheet does not declare the namespace): what the sheet then holds must round-trip
            donor = cssutils.parseString('@namespace zp "urn:zdonor";zp|a{top:0}@media tv{zp|b{left:0}@media print{zp|c{top:1px}}}')
            pick = rng.randrange(3)
            obj = [donor.cssRules[1], donor.cssRules[2], donor.cssRules[2].cssRules[1]][pick]
            declare = rng.random() < 0.6
            if declare:
                pos = len([r for r in rs if r.type in (r.CHARSET_RULE, r.IMPORT_RULE, r.NAMESPACE_RULE)])
                sheet.insertRule('@namespace zq "urn:zdonor";', pos)
            ms = [r for r in sheet.cssRules if r.type == r.MEDIA_RULE]
            target = 'media' if ms and rng.random() < 0.5 else 'sheet'
            try:
                if target == 'media':
                    rng.choice(ms).add(obj)
                else:
                    sheet.add(obj)
                res = 'accepted'
            except xml.dom.DOMException:
                res = 'refused'
            return [kind, pick, declare, target, res]
    except xml.dom.DOMException:
        return None
    return None


def run_worker(ctx):
    cssutils, _ = core.import_repo()
    quick = ctx.tier == 'quick'
    parser = cssutils.CSSParser()
    axes = ['neutral', 'ws', 'comments', 'case', 'quotes', 'escapes', 'numspell', 'all']
    n = 700 if quick else 12000
    for i in range(n):
        if not ctx.mine(i):
            continue
        rng = ctx.rng('sheet', i)
        g = G.Gen(rng, namespaces=rng.random() < 0.4)
        stmts = g.sheet()
        for axis in (axes if i % 3 == 0 else [rng.choice(axes)]):
            text, rfeats = G.render2(stmts, G.style_with(axis), ctx.rng('render', i * 10 + axes.index(axis)))
            core.canonical_state(cssutils)
            sheet = parser.parseString(text)
            feats = sorted(content_features(stmts, None) | rfeats)
            t1 = roundtrip_sheet(ctx, cssutils, sheet, 'generated', feats, {'source': text, 'axis': axis})
            if axis in ('neutral', 'all') and i % 2 == 0:
                node_roundtrips(ctx, cssutils, sheet, feats, 'generated')
            if i < 2 and axis == 'neutral':
                ctx.sample({'stream': 'generated', 'source': text, 't1': (t1 or b'').decode('utf-8', 'replace')})
    # hostile content, one class per sheet
    n = 2400 if quick else 50000
    for i in range(n):
        if not ctx.mine(i):
            continue
        rng = ctx.rng('hostile', i)
        hc = HOSTILE_CLASSES[i % len(HOSTILE_CLASSES)]
        g = G.Gen(rng, namespaces=False, hostile_class=hc, max_stmts=3)
        stmts = g.sheet()
        text, rfeats = G.render2(stmts, G.NEUTRAL_STYLE, ctx.rng('hrender', i))
        core.canonical_state(cssutils)
        try:
            sheet = parser.parseString(text)
        except Exception as e:
            ctx.violation('roundtrip.exception', {'kind': 'roundtrip', 'source': text}, {'tb': core.short_tb(e)}, site=core.raise_site(e))
            continue
        feats = sorted(content_features(stmts, hc))
        ctx.count('hostile.' + hc)
        roundtrip_sheet(ctx, cssutils, sheet, 'hostile:' + hc, feats, {'source': text})
        if i % 4 == 0:
            node_roundtrips(ctx, cssutils, sheet, feats, 'hostile:' + hc)
        if i < 8:
            ctx.sample({'stream': 'hostile', 'class': hc, 'source': text})
    shipped(ctx, cssutils)
    # DOMs after accepted edits
    n = 2500 if quick else 50000
    for i in range(n):
        if not ctx.mine(i):
            continue
        rng = ctx.rng('edit', i)
        g = G.Gen(rng, namespaces=False, max_stmts=4)
        stmts = g.sheet()
        # (also commented / wildly spaced sources: edits meet item sequences with comments in odd places)
        text, rfeats = G.render2(stmts, G.style_with(rng.choice(['neutral', 'comments', 'ws', 'comments'])), ctx.rng('erender', i))
        if rfeats:
            continue
        core.canonical_state(cssutils)
        sheet = parser.parseString(text)
        edits = []
        for _ in range(rng.randint(1, 6)):
            e = random_edit(rng, cssutils, sheet)
            if e:
                edits.append(e)
        if not edits:
            continue
        feats = sorted(content_features(stmts, None))
        roundtrip_sheet(ctx, cssutils, sheet, 'edited', feats, {'source': text, 'edits': edits}, counter='oracle.edited')


def replay(ctx, case):
    cssutils, _ = core.import_repo()
    core.canonical_state(cssutils)
    feats = case.get('features', [])
    if case.get('kind') == 'shipped':
        with open(os.path.join(core.REPO, 'sheets', case['file']), 'rb') as f:
            sheet = cssutils.parseString(f.read())
        roundtrip_sheet(ctx, cssutils, sheet, 'shipped:' + case['file'], ['shipped.' + case['file']], prefs={'resolveVariables': False})
        return
    if case.get('kind') == 'source':
        sheet = cssutils.CSSParser().parseString(case['source'])
        roundtrip_sheet(ctx, cssutils, sheet, 'replay', feats, {'source': case['source']})
        if case.get('nodes'):
            node_roundtrips(ctx, cssutils, sheet, feats, 'replay')
        return
    if case.get('dom_script'):
        # witnesses of states that only DOM edits reach
        sheet = cssutils.CSSParser().parseString(case['source'])
        imp = [r for r in sheet.cssRules if r.type == r.IMPORT_RULE]
        for op in case['dom_script']:
            if op == 'import0.media.delete-first':
                imp[0].media.deleteMedium(imp[0].media.item(0))
            elif op.startswith('import0.media.text:'):
                imp[0].media.mediaText = op.split(':', 1)[1]
            elif op.startswith('import0.media.set:'):
                imp[0].media = op.split(':', 1)[1]
            elif op.startswith('style0.selectors.append:'):
                [r for r in sheet.cssRules if r.type == r.STYLE_RULE][0].selectorList.appendSelector(op.split(':', 1)[1])
            elif op == 'sheet.add-foreign-nested-media':
                donor = cssutils.parseString('@namespace zp "urn:zdonor";zp|a{top:0}@media tv{zp|b{left:0}@media print{zp|c{top:1px}}}')
                sheet.add(donor.cssRules[2].cssRules[1])
        roundtrip_sheet(ctx, cssutils, sheet, 'replay-edited', feats, {'source': case['source'], 'dom_script': case['dom_script']})
        return
    if case.get('source') is not None and not case.get('edits'):
        sheet = cssutils.CSSParser().parseString(case['source'])
        roundtrip_sheet(ctx, cssutils, sheet, 'replay', feats, {'source': case['source']})
        node_roundtrips(ctx, cssutils, sheet, feats, 'replay')
    elif case.get('t1') is not None:
        sheet = cssutils.parseString(case['t1'])
        roundtrip_sheet(ctx, cssutils, sheet, 'replay-t1', feats)
    elif case.get('text') is not None:
        sheet = cssutils.parseString(case['text'])
        node_roundtrips(ctx, cssutils, sheet, feats, 'replay')
