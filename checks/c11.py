"""C11 - a rejected DOM mutation changes nothing (DESIGN section 6, C11).

Monitor: every public mutator of every DOM class is called, in raising mode, on objects that live inside a populated sheet, with
inputs that are valid, invalid from the first token, invalid only after an acceptable part, and invalid inside a nested object.
Around each call the oracle records the serialisation of the target, of its owning rule and of the sheet plus the structural
lists; whenever the call ends in an xml.dom.DOMException the before/after observations must be identical.  The same battery is
run on objects created read-only: every mutator must be rejected and nothing may change.  Edit histories (checks/domwalk.py,
mode 'c11') supply arbitrary prior states for the sheet-level mutators."""

import xml.dom

from checks import domwalk as W
from engine import core

PROPERTY = 'C11'
LEVEL = 'exploration'
LEVEL_TEXT = (
    'Battery of ~110 mutators (text setters of sheet, all rule kinds, declaration block, property, value, selector list, selector, media list, media '
    'query, variables; insert/add/delete; namespace mapping; encoding) x staged inputs (valid / rejected immediately / rejected after an accepted part / '
    'rejected in a nested object), on a populated sheet after random prior edits, plus read-only variants and random edit histories; the '
    'before/after observation is compared whenever xml.dom.DOMException is raised.'
)
LEVEL_NOTE = 'trusted: the observation function (cssText of target/owner/sheet, rule/property/selector/media lists, namespaces, encoding)'
TECHNIQUE = 'runtime monitoring: before/after state observation around every rejected public mutator call (post-condition oracle), staged-failure inputs, random edit histories'
DESIGN_REF = 'DESIGN.md section 6, C11'
RULE = (
    'mutator x input-stage x prior-state; distinct_nontrivial = distinct (mutator, exception type, input stage) triples for which a '
    'rejection was observed and compared'
)
EXHAUSTIVE = {'quick': False, 'thorough': False}
ASSUMPTIONS = [
    'only calls that end in xml.dom.DOMException are judged; accepted or silently ignored inputs are counted, not judged',
    'log.raiseExceptions is on (the only mode in which cssutils rejects with an exception)',
    'observably unchanged = same serialisation of target, owning rule and sheet and same structural lists; object identity of sub-objects is not required',
]
MIN_EVENTS = {
    'quick': {'oracle.rejected-unchanged': 22000, 'battery.rejected': 14000, 'readonly.calls': 2500, 'mutators.with-rejection': 95, 'oracle.rule-list-enumerated': 5000},
    'thorough': {'oracle.rejected-unchanged': 320000, 'battery.rejected': 100000, 'readonly.calls': 2500, 'mutators.with-rejection': 95, 'oracle.rule-list-enumerated': 5000},
}

BASE = (
    '@charset "utf-8";\n@import "i.css" print, tv;\n@namespace n1 "urn:n1";\n@namespace "urn:d";\n/*c*/\n@variables{v1:red;v2:1px}\n'
    'n1|a, b > c, *|d[n1|x] {top:0;left:1px !important;color:red;color:green;b\\ottom:2px !IMPORTANT}\n'
    '@media print, screen {m1{top:0} @media tv{m2{left:0}} n1|m3{right:0}}\n'
    '@page :first {margin:1cm; @top-left{content:"x";color:red} @bottom-center{content:"y"}}\n'
    '@font-face{font-family:f1;src:url(f.woff)}\n@unk1 x {y}\n'
    'vv{color:#f00;width:10px;background:url(a.png);margin:calc(1px + 2px);content:"s";z-index:5;height:var(v1);clip:rect(1px, 2px, 3px, 4px);'
    'border-color:rgb(1, 2, 3);outline-color:hsla(120, 50%, 50%, 0.5);quotes:none;filter:progid:DXImageTransform.Microsoft.gradient(a=1)}\n'
)
# media lists that contain 'all' (a list in which every further append is refused)
BASE_ALL = BASE.replace('@media print, screen {', '@media all {').replace('@import "i.css" print, tv;', '@import "i.css" all;')

VALUE_KIND_TEXTS = [('#0f0', 'ok'), ('blue', 'ok'), ('rgb(10, 20%, 30%)', 'late'), ('rgb(10%, 20, 30)', 'late'), ('hsl(120, 50, 50)', 'late'), ('rgba(1, 2, 3, 50%)', 'late'), ('hsla(10%, 20%, 30%, 1)', 'late'),
                    ('rgb(1, 2)', 'late'), ('rgb(1, 2, 3, 4)', 'late'), ('#12', 'early'), ('#ggg', 'early'), ('nosuchcolour', 'early'), ('rgb(1 2 3', 'late'),
                    ('20em', 'ok'), ('20', 'ok'), ('-5.5%', 'ok'), ('20 em', 'late'), ('1px 2px', 'late'), ('px', 'early'), ('1e', 'early'), ('+', 'early'),
                    ('url(b.png)', 'ok'), ('url("c.png")', 'ok'), ('url(b.png', 'late'), ('url(b c)', 'late'), ('url(b.png) x', 'late'), ('"c.png"', 'early'),
                    ('calc(2px * 3)', 'ok'), ('calc(2px *)', 'late'), ('calc(2px + )', 'late'), ('calc()', 'late'), ('calc(1px + 2px', 'late'), ('calc(1px+2px)', 'late'), ('calc(1px + (2px * ', 'nested'),
                    ('"t"', 'ok'), ("'t'", 'ok'), ('"t', 'early'), ('"t" "u"', 'late'),
                    ('var(v2)', 'ok'), ('var()', 'late'), ('var(v2', 'late'), ('var(1)', 'late'), ('var(v2, )', 'late'), ('var(v2 v3)', 'late'),
                    ('rect(5px, 6px, 7px, 8px)', 'ok'), ('rect(5px, 6px', 'late'), ('rect(5px, )', 'late'), ('f(g(h(', 'nested'), ('rect(5px;6px)', 'late'),
                    ('none', 'ok'), ('a b', 'late'), ('1a', 'ok'), ('$', 'early'), ('', 'early'), ('progid:DXImageTransform.Microsoft.Alpha(opacity=50)', 'ok'), ('progid:DX(', 'late')]  # fmt: skip


# ---- input pools: (text, stage)   stage in ok | early | late | nested
GOOD_RULE = {
    'charset': '@charset "ascii";',
    'import': '@import "j.css" tv;',
    'namespace': '@namespace n1 "urn:n1";',
    'variables': '@variables{v9:blue}',
    'style': 'z1, z2{bottom:0;top:1px}',
    'media': '@media tty{q1{top:0} q2{left:0}}',
    'page': '@page :left{margin:2cm;@top-right{content:"z"}}',
    'fontface': '@font-face{font-family:f2}',
    'comment': '/*new*/',
    'unknown': '@unk2 z;',
    'margin': '@top-center{content:"n"}',
}
BAD_RULE = {
    'charset': [('@charset ascii;', 'early'), ('@charset "ascii"', 'late'), ('@charset "ascii"; a{}', 'late'), ('@charset "no-such-codec-zz";', 'late')],
    'import': [('@import "bad.css" tv "n2";', 'nested'), ('@import url(bad3.css);', 'nested'), ('@import ;', 'early'), ('@import "j.css" 3d;', 'late'), ('@import "j.css" tv', 'late'), ('@import "j.css" tv, ;', 'late'), ('@import "j.css" tv; a{}', 'late'), ('@import "j.css" "k.css";', 'late')],
    'namespace': [('@namespace ;', 'early'), ('@namespace n1 "urn:other";', 'late'), ('@namespace n5 "urn:other";', 'late'), ('@namespace "urn:n1";', 'ok'), ('@namespace n5 "urn:n1";', 'ok'), ('@namespace n5 "urn:n1" x;', 'late'), ('@namespace n5 "urn:n1"', 'late')],
    'variables': [('@variables{v9:}', 'late'), ('@variables{v9:blue;v8}', 'late'), ('@variables{v9:blue', 'late'), ('@variables x{v9:blue}', 'early')],
    'style': [('z1,{top:0}', 'late'), ('z1{top:0}}', 'late'), ('z1{top:0} z2{left:0}', 'late'), ('zz|z1{top:0}', 'early'), ('z1, zz|z2{top:0}', 'late'), ('z1{top:0;left:)}', 'nested'),
              ('z1{top:0;$x:1}', 'nested'), ('z1{top:0', 'late'), ('{top:0}', 'early'), ('z1 z2:not(zz|a){top:0}', 'late'), ('z1{top:0;left}', 'nested')],  # fmt: skip
    'media': [('@media 3d{q1{top:0}}', 'early'), ('@media tty{q1{top:0} @import "x.css";}', 'nested'), ('@media tty{q1{top:0} q2{left:)}}', 'nested'), ('@media tty{q1{top:0} zz|q2{left:0}}', 'nested'),
              ('@media tty{q1{top:0}', 'late'), ('@media tty{q1{top:0}} q3{}', 'late'), ('@media tty{q1{top:0} @charset "x";}', 'nested'), ('@media tty, {q1{top:0}}', 'early'),
              ('@media tty{q1{top:0} @namespace n7 "u";}', 'nested'), ('@media tty{q1{top:0} q2,{left:0}}', 'nested'), ('@media tty and{q1{top:0}}', 'early'), ('@media tty{@media 3d{q1{top:0}}}', 'nested'),
              ('@media tty{q1{top:0} @font-face{font-family:x}}', 'nested'), ('@media tty{q1{top:0} @top-left{content:"x"}}', 'nested')],  # fmt: skip
    'page': [('@page :nosuch{margin:0}', 'early'), ('@page :left{margin:2cm;top:)}', 'nested'), ('@page :left{margin:2cm;@top-right{content:)}}', 'nested'), ('@page :left{margin:2cm', 'late'),
             ('@page :left{margin:2cm} a{}', 'late'), ('@page :left :right :first :x{margin:0}', 'early'), ('@page :left{margin:2cm;@nosuch-box{content:"z"}}', 'nested'), ('@page a b{margin:0}', 'early')],  # fmt: skip
    'fontface': [('@font-face{font-family:f2;src:)}', 'nested'), ('@font-face{font-family:f2', 'late'), ('@font-face x{font-family:f2}', 'early'), ('@font-face{font-family:f2} a{}', 'late')],
    'comment': [('/*new', 'early'), ('/*new*/ a{}', 'late'), ('/*a*//*b*/', 'late'), ('x', 'early')],
    'unknown': [('@unk2 z', 'late'), ('@unk2 {', 'late'), ('@unk2 z; a{}', 'late'), ('@unk2 [;', 'late'), ('@unk2 (};', 'late')],
    'margin': [('@top-center{content:)}', 'nested'), ('@top-center{content:"n"', 'late'), ('@nosuch{content:"n"}', 'early'), ('@top-center x{content:"n"}', 'early'), ('@top-center{content:"n"} a{}', 'late')],
}
DECLS = [('bottom:0;top:1px', 'ok'), ('', 'ok'), ('bottom:0;top:)', 'late'), ('bottom:0;top', 'late'), ('bottom:0;}', 'late'), ('bottom:0;$top:1', 'late'), (')', 'early'),
         ('bottom:0 !x', 'late'), ('bottom:0;top:1px !important !important', 'late'), ('bottom:0;top:calc(1+)', 'late'), ('bottom:0;top:url(', 'late'), ('{bottom:0}', 'early')]  # fmt: skip
SELECTORS = [('z1, z2 > z3', 'ok'), ('n1|z', 'ok'), ('zz|z', 'early'), ('z1, zz|z', 'late'), ('z1,', 'late'), ('z1, ,z2', 'late'), ('', 'early'), ('z1{', 'late'), ('z1 > ', 'late'),
             ('z1[a=]', 'late'), ('z1:not(', 'late'), ('z1, z2[zz|a]', 'late'), ('z1 z2:not(zz|a)', 'late'), ('1z', 'early'), ('z1, z2)', 'late')]  # fmt: skip
SELECTOR1 = [('z1 > z3', 'ok'), ('zz|z', 'early'), ('z1, z2', 'late'), ('z1 >', 'late'), ('', 'early'), ('z1[a', 'late'), ('z1 zz|z', 'late'), ('z1:not(zz|a)', 'late'), ('*|*|*', 'late')]
MEDIAS = [('/*x*/', 'early'), ('/*x*/ tv', 'ok'), ('tv /*y*/, /*z*/', 'late'), (' ', 'ok'), ('tty', 'ok'), ('tv, print', 'ok'), ('all and (min-width:1px)', 'ok'), ('3d', 'early'), ('tv, 3d', 'late'), ('tv,', 'late'), ('tv and', 'late'), ('tv and (', 'late'), ('tv, print and (color', 'late'),
          ('', 'ok'), ('tv print', 'late'), ('tv, , print', 'late'), ('tv; print', 'late'), ('tv, print and color', 'late'), ('not', 'early'), ('(min-width:)', 'early')]  # fmt: skip
MEDIUM1 = [('/*x*/', 'early'), ('/*x*/ tv', 'ok'), ('tv', 'ok'), ('SCREEN', 'ok'), ('all', 'ok'), ('ALL', 'ok'), ('print', 'ok'), ('handheld', 'ok'), ('tty', 'ok'), ('print and (color)', 'ok'), ('3d', 'early'), ('tv, print', 'late'), ('tv and', 'late'), ('', 'early'), ('tv and (', 'late'), ('tv x', 'late')]
MEDIATYPES = [('tv', 'ok'), ('nosuch', 'early'), ('3d', 'early'), ('', 'early'), ('tv print', 'late')]
VALUES = [('2px', 'ok'), ('red', 'ok'), ('1px 2px', 'ok'), (')', 'early'), ('1px )', 'late'), ('1px;2px', 'late'), ('', 'early'), ('1px !important', 'late'), ('calc(1px +', 'late'), ('1px,', 'late'),
          ('url(', 'early'), ('rgb(1,2', 'late'), ('1px {', 'late'), ('"x', 'early'), ('1px /', 'late'), ('f(1 g(2 h(', 'nested')]  # fmt: skip
# round 8: texts that are refused *late* for what they hold, not for their syntax - nothing but comments / white space (tokenises and parses, holds no value),
# and literals beyond what a float or Python's int conversion takes, written with another sign and unit than the value they would replace
LATE_VALUE_TEXTS = [('/* only a comment */', 'late'), ('/**/ /*x*/', 'late'), (' ', 'late'), ('+' + '9' * 320 + '.5%', 'late'), ('-' + '9' * 400 + '.25em', 'late'),
                    ('+' + '9' * 5000 + 'pt', 'late'), ('9' * 5000, 'late'), ('rgb(' + '9' * 400 + '.5, 1, 1)', 'late'), ('calc(1px * ' + '9' * 5000 + ')', 'late')]
VALUES = VALUES + LATE_VALUE_TEXTS
VALUE_KIND_TEXTS = VALUE_KIND_TEXTS + LATE_VALUE_TEXTS
NAMES = [('bottom', 'ok'), ('BOTTOM', 'ok'), ('-x-y', 'ok'), ('1a', 'early'), ('', 'early'), ('a b', 'late'), ('a:', 'late'), ('$a', 'early'), ('a;b', 'late'), ('"a"', 'early')]
PRIOS = [('important', 'ok'), ('!important', 'ok'), ('!bogus', 'late'), ('!IMPORTANT', 'ok'), ('! Bogus', 'late'), ('', 'ok'), ('x', 'early'), ('important x', 'late'), ('! important !', 'late'), ('1', 'early')]
PROPTEXTS = [('bottom:2px', 'ok'), ('bottom:2px !important', 'ok'), ('bottom:)', 'late'), ('bottom', 'late'), (':2px', 'early'), ('bottom:2px !x', 'late'), ('bottom:2px;top:1px', 'late'), ('bottom 2px', 'late'),
             ('$bottom:2px', 'early'), ('bottom:', 'late'), ('bottom:2px !important x', 'late')]  # fmt: skip
HREFS = [('k.css', 'ok'), ('', 'ok'), ('a b.css', 'ok'), ('bad.css', 'nested'), ('sub/bad2.css', 'nested')]  # (bad*: the fetcher of variant 3 serves a sheet with errors of its own)
IMPORT_NAMES = [('nm', 'ok'), ('', 'ok'), (None, 'ok'), (1, 'early')]
ENCODINGS = [('ascii', 'ok'), ('utf-8', 'ok'), ('no-such-codec-zz', 'early'), ('', 'early'), ('a b', 'early'), (None, 'ok')]
PREFIXES = [('n5', 'ok'), ('', 'ok'), ('1x', 'early'), ('a b', 'late'), ('n1', 'ok'), ('"x"', 'early')]
URIS = [('urn:n1', 'ok'), ('urn:new', 'early'), ('urn:d', 'early'), ('', 'early')]
VARNAMES = [('v1', 'ok'), ('v7', 'ok'), ('1v', 'early'), ('', 'early'), ('a b', 'late')]
VARTEXTS = [('v9:blue;v1:1px', 'ok'), ('v9:blue;v8', 'late'), ('v9:', 'late'), ('v9:blue;}', 'late'), (')', 'early'), ('v9:blue;v8:)', 'late')]
INDEXES = [(0, 'ok'), (1, 'ok'), (2, 'ok'), (-1, 'ok'), (5, 'ok'), (99, 'early'), (-99, 'early')]
MARGINS = [('@top-right', 'ok'), ('@nosuch', 'early'), ('top-left', 'early'), ('', 'early')]
PAGESEL = [(':left', 'ok'), ('named:first', 'ok'), (':nosuch', 'early'), ('a b', 'late'), (':left :right', 'late'), ('', 'ok'), (':first:', 'late')]


JUNK = [')', '}', '{', ';', '$', '"', 'zz|q', '@import "x";', ',', ':', '!', '/*', '(', ']']


def staged(text):
    """`text` (accepted as it is) with one junk fragment inserted at every token boundary: rejected at every possible stage"""
    import re

    toks = re.findall(r'\s+|[\w-]+|"[^"]*"|.', text)
    out = []
    for i in range(len(toks) + 1):
        for j in JUNK:
            out.append((''.join(toks[:i]) + j + ''.join(toks[i:]), 'staged'))
    return out


def rule_inputs(kind):
    out = [(GOOD_RULE[kind], 'ok')] + BAD_RULE[kind]
    for other in GOOD_RULE:
        if other != kind:
            out.append((GOOD_RULE[other], 'early'))
    return out


ALL_RULE_TEXTS = sorted({t for k in GOOD_RULE for t, _ in rule_inputs(k)})


def find(sheet, cls, nth=0):
    found = [r for r in sheet.cssRules if type(r).__name__ == cls]
    return found[nth] if len(found) > nth else None


def mutators(c):
    """(label, locate(sheet) -> (owner_rule, target) or None, call(target, arg), inputs)"""
    css = c.css
    M = []

    def add(label, locate, call, inputs):
        M.append((label, locate, call, inputs))

    def setter(attr):
        return lambda t, a: setattr(t, attr, a)

    rule_cls = {'charset': 'CSSCharsetRule', 'import': 'CSSImportRule', 'namespace': 'CSSNamespaceRule', 'variables': 'CSSVariablesRule', 'style': 'CSSStyleRule',
                'media': 'CSSMediaRule', 'page': 'CSSPageRule', 'fontface': 'CSSFontFaceRule', 'comment': 'CSSComment', 'unknown': 'CSSUnknownRule'}  # fmt: skip
    for kind, cls in rule_cls.items():
        add('%s.cssText' % cls, (lambda s, cls=cls: (find(s, cls), find(s, cls))), setter('cssText'), rule_inputs(kind))
    margin = lambda s: (find(s, 'CSSPageRule'), find(s, 'CSSPageRule').cssRules[0])  # noqa: E731
    add('MarginRule.cssText', margin, setter('cssText'), rule_inputs('margin'))
    add('MarginRule.margin', margin, setter('margin'), MARGINS)
    add('MarginRule.style', margin, setter('style'), DECLS)
    nested_style = lambda s: (find(s, 'CSSMediaRule'), find(s, 'CSSMediaRule').cssRules[0])  # noqa: E731
    nested2 = lambda s: (find(s, 'CSSMediaRule'), find(s, 'CSSMediaRule').cssRules[1].cssRules[0])  # noqa: E731
    add('nested CSSStyleRule.cssText', nested_style, setter('cssText'), rule_inputs('style'))
    add('nested2 CSSStyleRule.cssText', nested2, setter('cssText'), rule_inputs('style'))
    add('nested CSSMediaRule.cssText', lambda s: (find(s, 'CSSMediaRule'), find(s, 'CSSMediaRule').cssRules[1]), setter('cssText'), rule_inputs('media'))
    # sheet
    sheet_t = lambda s: (None, s)  # noqa: E731
    add('CSSStyleSheet.cssText', sheet_t, setter('cssText'),
        [('a{top:0}', 'ok'), ('a{top:0} @import "late.css";', 'late'), ('a{top:0} b{left:)}', 'nested'), ('a{top:0} zz|b{}', 'late'), ('@namespace p "u"; p|a{} q|b{}', 'late'),
         ('a{top:0} @charset "x";', 'late'), ('a{top:0} @media print{b{} @import "x";}', 'nested'), ('a{top:0} @namespace late "u";', 'late'), ('a{top:0} b{', 'late'), ('@import "x.css"; @import ;', 'late'),
         ('a{top:0} @page{margin:)}', 'nested'), ('a{top:0}}', 'late')])  # fmt: skip
    add('CSSStyleSheet.encoding', sheet_t, setter('encoding'), ENCODINGS)
    for idx in (0, 1, 3, 5, 6, 8, 11, 12):
        add('CSSStyleSheet.insertRule@%d' % idx, sheet_t, (lambda t, a, idx=idx: t.insertRule(a, idx)), [(t, 'mixed') for t in ALL_RULE_TEXTS])
    add('CSSStyleSheet.add', sheet_t, lambda t, a: t.add(a), [(t, 'mixed') for t in ALL_RULE_TEXTS])
    add('CSSStyleSheet.deleteRule', sheet_t, lambda t, a: t.deleteRule(a), INDEXES + [(2, 'ok'), (3, 'ok')])
    ns_pairs = [((p, u), 'mixed') for p in ('n1', '', 'n5', 'a') for u in ('urn:n1', 'urn:d', 'urn:new')]
    add('CSSStyleSheet.add(CSSNamespaceRule)', sheet_t, lambda t, a: t.add(css.CSSNamespaceRule(prefix=a[0], namespaceURI=a[1])), ns_pairs)
    for idx in (2, 3, 4):
        add('CSSStyleSheet.insertRule(CSSNamespaceRule)@%d' % idx, sheet_t, (lambda t, a, idx=idx: t.insertRule(css.CSSNamespaceRule(prefix=a[0], namespaceURI=a[1]), idx)), ns_pairs)
    add('CSSStyleSheet.namespaces[]=', sheet_t, lambda t, a: t.namespaces.__setitem__(a[0], a[1]),
        [((p, u), 'mixed') for p in ('n1', '', 'n5', '1x') for u in ('urn:n1', 'urn:d', 'urn:new')])
    add('del CSSStyleSheet.namespaces[]', sheet_t, lambda t, a: t.namespaces.__delitem__(a), [('n1', 'early'), ('', 'early'), ('n5', 'early')])
    # style rule parts
    sr = lambda s: (find(s, 'CSSStyleRule'), find(s, 'CSSStyleRule'))  # noqa: E731
    add('CSSStyleRule.selectorText', sr, setter('selectorText'), SELECTORS)
    add('CSSStyleRule.style', sr, setter('style'), DECLS)
    add('nested CSSStyleRule.selectorText', nested_style, setter('selectorText'), SELECTORS)
    sl = lambda s: (find(s, 'CSSStyleRule'), find(s, 'CSSStyleRule').selectorList)  # noqa: E731
    add('SelectorList.selectorText', sl, setter('selectorText'), SELECTORS)
    add('SelectorList.appendSelector', sl, lambda t, a: t.appendSelector(a), SELECTOR1)
    sel = lambda s: (find(s, 'CSSStyleRule'), find(s, 'CSSStyleRule').selectorList[1])  # noqa: E731
    add('Selector.selectorText', sel, setter('selectorText'), SELECTOR1)
    st = lambda s: (find(s, 'CSSStyleRule'), find(s, 'CSSStyleRule').style)  # noqa: E731
    add('CSSStyleDeclaration.cssText', st, setter('cssText'), DECLS)
    add('CSSStyleDeclaration.setProperty', st, lambda t, a: t.setProperty(a[0], a[1], a[2]),
        [((n, v, p), 'mixed') for n, _ in NAMES for v, _ in VALUES[:9] for p, _ in PRIOS[:5]][::3])
    add('CSSStyleDeclaration[]=', st, lambda t, a: t.__setitem__(a[0], a[1]), [((n, v), 'mixed') for n, _ in NAMES for v, _ in VALUES])

    def update_existing(t, a):
        # an entry that is there already is updated in place: value and priority are two steps
        ps = t.getProperties(all=True)
        t.setProperty(ps[a[0] % len(ps)].name, a[1], a[2])

    # values that make a fresh Property but whose own serialisation is refused when it is taken over (escaped delimiters), and ordinary ones, each
    # with a priority that differs from the one in place
    add('CSSStyleDeclaration.setProperty(existing name)', st, update_existing,
        [((i, v, pr), 'late-takeover') for i in range(3) for v in ('\\2c ', '\\3b ', '\\22 ', '\\7d ', 'url(a\\"b)', '\\29 ', 'a\\,b', '\\28 x', '2px', '1px )', 'f(\\29 )')
         for pr in ('', 'important', '!important', 'x')])
    add('CSSStyleDeclaration.top=', st, setter('top'), VALUES)
    add('CSSStyleDeclaration.removeProperty', st, lambda t, a: t.removeProperty(a), NAMES)
    add('CSSStyleDeclaration.setProperty(Property)', st, lambda t, a: t.setProperty(css.Property(a[0], a[1])), [((n, v), 'mixed') for n, _ in NAMES[:4] for v, _ in VALUES])

    def set_lenient_property(t, a):
        # a Property object made while errors are only logged can carry parts a raising setter refuses later
        c.log.raiseExceptions = False
        try:
            p = css.Property(a[0], a[1], a[2])
        finally:
            c.log.raiseExceptions = True
        t.setProperty(p)

    add('CSSStyleDeclaration.setProperty(Property made in log mode)', st, set_lenient_property,
        [((n, v, pr), 'nested') for n in ('left', 'top', 'bottom', 'COLOR') for v in ('2px', 'red', '1px )', '') for pr in ('', 'important', '!foo', 'x y', '!important !')])
    for label, locate in (('page', lambda s: (find(s, 'CSSPageRule'), find(s, 'CSSPageRule').style)), ('font-face', lambda s: (find(s, 'CSSFontFaceRule'), find(s, 'CSSFontFaceRule').style)),
                          ('nested', lambda s: (find(s, 'CSSMediaRule'), find(s, 'CSSMediaRule').cssRules[0].style))):  # fmt: skip
        add('%s CSSStyleDeclaration.cssText' % label, locate, setter('cssText'), DECLS)
        add('%s CSSStyleDeclaration[]=' % label, locate, lambda t, a: t.__setitem__(a[0], a[1]), [((n, v), 'mixed') for n, _ in NAMES[:3] for v, _ in VALUES])
    prop = lambda s: (find(s, 'CSSStyleRule'), find(s, 'CSSStyleRule').style.getProperties(all=True)[1])  # noqa: E731
    add('Property.cssText', prop, setter('cssText'), PROPTEXTS)
    # a property whose name was written with an escape (name and literal name differ)
    prop_esc = lambda s: (find(s, 'CSSStyleRule'), [p for p in find(s, 'CSSStyleRule').style.getProperties(all=True) if '\\' in p.literalname][0])  # noqa: E731
    add('Property.cssText (escaped name)', prop_esc, setter('cssText'), PROPTEXTS)
    add('Property.value (escaped name)', prop_esc, setter('value'), VALUES)
    add('Property.priority (escaped name)', prop_esc, setter('priority'), PRIOS)
    add('Property.name (escaped name)', prop_esc, setter('name'), NAMES)
    add('Property.name', prop, setter('name'), NAMES)
    add('Property.value', prop, setter('value'), VALUES)
    add('Property.priority', prop, setter('priority'), PRIOS)
    add('Property.propertyValue', prop, setter('propertyValue'), VALUES)
    pv = lambda s: (find(s, 'CSSStyleRule'), find(s, 'CSSStyleRule').style.getProperties(all=True)[1].propertyValue)  # noqa: E731
    add('PropertyValue.cssText', pv, setter('cssText'), VALUES)
    val = lambda s: (find(s, 'CSSStyleRule'), find(s, 'CSSStyleRule').style.getProperties(all=True)[1].propertyValue[0])  # noqa: E731
    add('Value.cssText', val, setter('cssText'), VALUES)
    def vv_value(i):
        return lambda s: (find(s, 'CSSStyleRule', 1), find(s, 'CSSStyleRule', 1).style.getProperties(all=True)[i].propertyValue[0])

    for i, kind in enumerate(['ColorValue#', 'DimensionValue', 'URIValue', 'CSSCalc', 'Value.string', 'Value.number', 'CSSVariable', 'CSSFunction', 'ColorValue.rgb', 'ColorValue.hsla', 'Value.ident', 'MSValue']):
        add('%s.cssText' % kind, vv_value(i), setter('cssText'), VALUE_KIND_TEXTS)
        add('%s PropertyValue.cssText' % kind, (lambda s, i=i: (find(s, 'CSSStyleRule', 1), find(s, 'CSSStyleRule', 1).style.getProperties(all=True)[i].propertyValue)), setter('cssText'), VALUE_KIND_TEXTS[::2])
    # media
    mr = lambda s: (find(s, 'CSSMediaRule'), find(s, 'CSSMediaRule'))  # noqa: E731
    add('CSSMediaRule.media', mr, setter('media'), MEDIAS)
    add('CSSMediaRule.name', mr, setter('name'), IMPORT_NAMES)
    for idx in (0, 1, 3, 9):
        add('CSSMediaRule.insertRule@%d' % idx, mr, (lambda t, a, idx=idx: t.insertRule(a, idx)), [(t, 'mixed') for t in ALL_RULE_TEXTS])
    add('CSSMediaRule.add', mr, lambda t, a: t.add(a), [(t, 'mixed') for t in ALL_RULE_TEXTS])
    add('CSSMediaRule.deleteRule', mr, lambda t, a: t.deleteRule(a), INDEXES)
    ml = lambda s: (find(s, 'CSSMediaRule'), find(s, 'CSSMediaRule').media)  # noqa: E731
    add('MediaList.mediaText', ml, setter('mediaText'), MEDIAS)
    add('MediaList.appendMedium', ml, lambda t, a: t.appendMedium(a), MEDIUM1)
    add('MediaList.deleteMedium', ml, lambda t, a: t.deleteMedium(a), [('print', 'ok'), ('tv', 'early'), ('3d', 'early'), ('', 'early')])
    add('MediaList[]=', ml, lambda t, a: t.__setitem__(a[0], a[1]), [((i, m), 'mixed') for i in (0, 1, 5) for m, _ in MEDIUM1])
    mq = lambda s: (find(s, 'CSSMediaRule'), find(s, 'CSSMediaRule').media[1])  # noqa: E731
    add('MediaQuery.mediaText', mq, setter('mediaText'), MEDIUM1)
    add('MediaQuery.mediaType', mq, setter('mediaType'), MEDIATYPES)
    ir = lambda s: (find(s, 'CSSImportRule'), find(s, 'CSSImportRule'))  # noqa: E731
    add('CSSImportRule.media', ir, setter('media'), MEDIAS)
    add('CSSImportRule.href', ir, setter('href'), HREFS)
    add('CSSImportRule.name', ir, setter('name'), IMPORT_NAMES)
    add('CSSImportRule.media.mediaText', lambda s: (find(s, 'CSSImportRule'), find(s, 'CSSImportRule').media), setter('mediaText'), MEDIAS)
    # page
    pr = lambda s: (find(s, 'CSSPageRule'), find(s, 'CSSPageRule'))  # noqa: E731
    add('CSSPageRule.selectorText', pr, setter('selectorText'), PAGESEL)
    add('CSSPageRule.style', pr, setter('style'), DECLS)
    add('CSSPageRule.add', pr, lambda t, a: t.add(a), [(t, 'mixed') for t in ALL_RULE_TEXTS])
    add('CSSPageRule.insertRule@1', pr, lambda t, a: t.insertRule(a, 1), [(t, 'mixed') for t in ALL_RULE_TEXTS])
    add('CSSPageRule.deleteRule', pr, lambda t, a: t.deleteRule(a), INDEXES)
    add('CSSFontFaceRule.style', lambda s: (find(s, 'CSSFontFaceRule'), find(s, 'CSSFontFaceRule')), setter('style'), DECLS)
    # namespace / charset / variables
    nr = lambda s: (find(s, 'CSSNamespaceRule'), find(s, 'CSSNamespaceRule'))  # noqa: E731
    add('CSSNamespaceRule.prefix', nr, setter('prefix'), PREFIXES)
    add('CSSNamespaceRule.namespaceURI', nr, setter('namespaceURI'), URIS)
    add('CSSCharsetRule.encoding', lambda s: (find(s, 'CSSCharsetRule'), find(s, 'CSSCharsetRule')), setter('encoding'), ENCODINGS)
    vr = lambda s: (find(s, 'CSSVariablesRule'), find(s, 'CSSVariablesRule').variables)  # noqa: E731
    add('CSSVariablesDeclaration.cssText', vr, setter('cssText'), VARTEXTS)
    add('CSSVariablesDeclaration.setVariable', vr, lambda t, a: t.setVariable(a[0], a[1]), [((n, v), 'mixed') for n, _ in VARNAMES for v, _ in VALUES[:8]])
    add('CSSVariablesDeclaration.removeVariable', vr, lambda t, a: t.removeVariable(a), VARNAMES)
    add('CSSVariablesRule.variables', lambda s: (find(s, 'CSSVariablesRule'), find(s, 'CSSVariablesRule')), setter('variables'), VARTEXTS)
    # staged variants of the first accepted text input of every text mutator
    out = []
    for label, locate, call, inputs in M:
        first = next((a for a, st in inputs if st == 'ok' and isinstance(a, str) and len(a) > 3), None)
        extra = staged(first) if first else []
        out.append((label, locate, call, list(inputs), extra))
    return out


def observe(c, sheet, owner, target):
    def text(o):
        for attr in ('cssText', 'selectorText', 'mediaText'):
            if hasattr(o, attr):
                try:
                    v = getattr(o, attr)
                    return v.decode('utf-8', 'replace') if isinstance(v, bytes) else v
                except Exception as e:
                    return 'EXC ' + type(e).__name__
        return repr(o)

    obs = {'target': text(target), 'owner': text(owner) if owner is not None else None}
    obs.update(W.snapshot(sheet))
    vals = []
    for r in sheet.cssRules:
        if type(r).__name__ == 'CSSStyleRule':
            for p in r.style.getProperties(all=True):
                for v in p.propertyValue:
                    row = [type(v).__name__]
                    for attr in ('cssText', 'value', 'type', 'dimension', 'uri', 'colorType', 'red', 'green', 'blue', 'alpha', 'name'):
                        try:
                            row.append(repr(getattr(v, attr, None)))
                        except Exception as e:
                            row.append('EXC ' + type(e).__name__)
                    vals.append(row)
    obs['values'] = vals
    # the spellings the objects remember (names, priorities, at-keywords), as the serializer shows them when asked for the literal forms
    try:
        c.ser.prefs.defaultAtKeyword = c.ser.prefs.defaultPropertyName = c.ser.prefs.defaultPropertyPriority = False
        obs['literal-forms'] = sheet.cssText.decode('utf-8', 'replace')
    except Exception as e:
        obs['literal-forms'] = 'EXC ' + type(e).__name__
    finally:
        c.ser.prefs.defaultAtKeyword = c.ser.prefs.defaultPropertyName = c.ser.prefs.defaultPropertyPriority = True
    try:
        obs['sheet.variables'] = sorted((k, sheet.variables.getVariableValue(k)) for k in sheet.variables.keys())
    except Exception as e:
        obs['sheet.variables'] = 'EXC ' + type(e).__name__
    for r in sheet.cssRules:
        cls = type(r).__name__
        if cls == 'CSSPageRule':
            obs['page'] = [r.selectorText, [(p.name, p.value, p.priority) for p in r.style.getProperties(all=True)], [(getattr(m, 'margin', None), m.cssText) for m in r.cssRules]]
        elif cls == 'CSSVariablesRule':
            obs['vars'] = [(k, r.variables.getVariableValue(k)) for k in r.variables.keys()]
        elif cls == 'CSSFontFaceRule':
            obs['fontface'] = [(p.name, p.value) for p in r.style.getProperties(all=True)]
        elif cls == 'CSSMediaRule':
            obs['media'] = [r.media.mediaText, [r.media.item(i) for i in range(r.media.length)], r.name, len(r.cssRules)]
        elif cls == 'CSSCharsetRule':
            obs['charset'] = r.encoding
    return obs


def obs_diff(a, b):
    for k in a:
        if a[k] != b.get(k):
            return {'what': k, 'before': str(a[k])[:260], 'after': str(b.get(k))[:260]}
    return None


PRIOR_OPS = ['decl-set', 'decl-text', 'selector-text', 'media-text', 'add', 'insert', 'nested-add', 'ns-set', 'delete', 'nested-delete']


def battery_case(ctx, c, muts, mi, ii, prior_seed, readonly=False, variant=0):
    """one mutator call; returns False if a violation was reported"""
    import random

    label, locate, call, inputs, extra = muts[mi]
    allin = inputs + extra
    arg, stage = allin[ii % len(allin)]
    core.canonical_state(c)
    if variant == 3:
        # variables supplied only by an imported sheet, used through var(); an extra declaration of a namespace that is in use
        text = BASE.replace('@variables{v1:red;v2:1px}\n', '').replace('@namespace "urn:d";', '@namespace "urn:d";@namespace n7 "urn:n7";').replace('vv{', 'n7|w{top:0}vv{')
        def fetch(url):
            if 'bad' in url:
                # an imported sheet that is wrong in itself: a late @import, a stray @charset, an unknown prefix (raising mode makes exceptions of these)
                return (None, 'a{top:0} @import "late.css"; @charset "x"; zz|q{left:0} }')
            return (None, '@variables{v1:green;v2:2px}iv{top:0}')

        sheet = c.CSSParser(fetcher=fetch).parseString(text, href='http://h/base.css')
    else:
        sheet = c.parseString(BASE_ALL if variant == 1 else BASE)
    if variant == 2:
        # a list that came to hold 'all' beside other media through item-level edits
        try:
            find(sheet, 'CSSMediaRule').media[0].mediaType = 'all'
            find(sheet, 'CSSImportRule').media[1] = 'all'
        except Exception:
            pass
    case = {'kind': 'battery', 'variant': variant, 'mutator': label, 'mi': mi, 'ii': ii % len(allin), 'arg': arg, 'prior': prior_seed, 'readonly': readonly}
    # arbitrary prior state: a few accepted random edits
    if prior_seed is not None:
        rng = random.Random(prior_seed)
        w = W.Walk(core.Ctx('C11', 'quick', 0), c, 'none', rng)
        w.sheet = sheet
        for _ in range(rng.randint(1, 6)):
            op = W.random_op(rng, sheet)
            if op[0] in PRIOR_OPS:
                w.apply(op)
    try:
        loc = locate(sheet)
    except (IndexError, AttributeError, TypeError):
        loc = None
    if not loc or loc[1] is None:
        ctx.count('battery.target-gone')
        return True
    owner, target = loc
    if readonly:
        for o in (target,):
            o._readonly = True
    c.log.raiseExceptions = True
    before = observe(c, sheet, owner, target)
    outcome, exc = 'ok', None
    try:
        call(target, arg)
    except xml.dom.DOMException as e:
        outcome, exc = 'rejected', e
    except Exception as e:
        outcome, exc = 'crash', e
    if readonly:
        ctx.count('readonly.calls')
    ctx.count('battery.' + outcome)
    if outcome == 'crash':
        # not a DOM exception (e.g. IndexError of ml[5] = x): outside the statement of C11, counted only
        ctx.count('battery.non-dom-exception.' + type(exc).__name__)
        return True
    after = observe(c, sheet, owner, target)
    if outcome == 'rejected':
        ctx.count('oracle.rejected-unchanged')
        ctx.count('rejected.' + type(exc).__name__)
        ctx.seen(['rej', label, type(exc).__name__, stage])
        d = obs_diff(before, after)
        if d:
            ctx.violation('rejected-but-changed', case, dict(d, exception=type(exc).__name__ + ': ' + str(exc)[:160], stage=stage),
                          features=['mutator:' + label] + (['readonly'] if readonly else []), site=core.raise_site(exc))  # fmt: skip
            return False
    elif readonly:
        d = obs_diff(before, after)
        if d:
            ctx.violation('readonly-mutated', case, d, features=['mutator:' + label, 'readonly'])
            return False
        ctx.count('readonly.accepted-without-change')
    return True


def run_worker(ctx):
    cssutils, _ = core.import_repo()
    quick = ctx.tier == 'quick'
    muts = mutators(cssutils)
    if ctx.k == 0:
        ctx.count('mutators', len(muts))
    idx = 0
    priors = [None, 1, 2, 3] if quick else [None] + list(range(1, 40))
    for mi, (label, locate, call, inputs, extra) in enumerate(muts):
        for ii in range(len(inputs) + len(extra)):
            is_extra = ii >= len(inputs)
            if is_extra and quick and (ii + mi) % 2:
                continue
            for prior in priors[:1] + (priors[1:3] if is_extra and not quick else [] if is_extra else priors[1:]):
                idx += 1
                if not ctx.mine(idx):
                    continue
                ctx.count('evaluations')
                seedv = None if prior is None else ctx.rng('p', idx).randrange(10**9)
                battery_case(ctx, cssutils, muts, mi, ii, seedv)
                if 'edia' in label and prior is None:
                    for variant in (1, 2):
                        battery_case(ctx, cssutils, muts, mi, ii, None, variant=variant)
                if prior is None and (label.startswith('CSSStyleSheet.') or 'Namespace' in label or 'Import' in label or 'Variables' in label):
                    battery_case(ctx, cssutils, muts, mi, ii, None, variant=3)
            idx += 1
            if ctx.mine(idx) and not label.startswith('Property.') and not is_extra:  # Property has no read-only form
                ctx.count('evaluations')
                battery_case(ctx, cssutils, muts, mi, ii, None, readonly=True)
    # random histories
    n = 1200 if quick else 30000
    for i in range(n):
        if not ctx.mine(i):
            continue
        rng = ctx.rng('w', i)
        w = W.Walk(ctx, cssutils, 'c11', rng)
        w.start(rng.choice(W.SEEDS + [BASE]))
        cssutils.log.raiseExceptions = True
        ctx.count('evaluations')
        for _ in range(rng.randint(10, 50)):
            cssutils.log.raiseExceptions = True
            if not w.step():
                break
    # round 8: rule lists whose accepted first members leave something behind when a later member is refused - enumerated, not left to chance:
    # every pair and triple of member kinds, at the first positions of every seed sheet, into the sheet and into its first containers
    kinds = ['variables', 'style', 'namespace', 'import', 'fontface', 'margin', 'charset', 'media', 'page', 'foreign-ns']
    combos = [[a, b] for a in kinds for b in kinds] + [['variables', a, b] for a in kinds for b in kinds if a != 'variables']
    j = 0
    for seed in W.SEEDS:
        for where in ('sheet', 0, 1):
            for combo in combos:
                for index in (0, 1):
                    j += 1
                    if not ctx.mine(j):
                        continue
                    w = W.Walk(ctx, cssutils, 'c11', ctx.rng('rl', j))
                    w.start(seed)
                    cssutils.log.raiseExceptions = True
                    ctx.count('evaluations')
                    ctx.count('oracle.rule-list-enumerated')
                    w.step(['insert-list', where, [[k, 0] for k in combo], index])
    core.canonical_state(cssutils)
    if ctx.k == 0:
        # reach: for how many mutators was at least one rejection observed and compared (whole battery, pristine prior state)
        never = []
        for mi, (label, locate, call, inputs, extra) in enumerate(muts):
            before = ctx.counters['oracle.rejected-unchanged']
            for ii in range(len(inputs)):
                battery_case(ctx, cssutils, muts, mi, ii, None)
                if ctx.counters['oracle.rejected-unchanged'] > before:
                    ctx.count('mutators.with-rejection')
                    break
            else:
                never.append(label)
        ctx.extra['mutators_never_rejecting'] = never
    ctx.sample({'mutator': 'CSSMediaRule.cssText', 'arg': '@media tty{q1{top:0} @import "x.css";}', 'stage': 'nested'})


def replay(ctx, case):
    cssutils, _ = core.import_repo()
    import random

    if case.get('kind') == 'battery':
        muts = mutators(cssutils)
        mi = next((i for i, m in enumerate(muts) if m[0] == case['mutator']), None)
        if mi is None:
            return
        inputs = muts[mi][3] + muts[mi][4]
        ii = next((i for i, (a, _) in enumerate(inputs) if core.jsonable(a) == case['arg']), case.get('ii', 0))
        battery_case(ctx, cssutils, muts, mi, ii, case.get('prior'), readonly=case.get('readonly', False), variant=case.get('variant', 0))
    else:
        w = W.Walk(ctx, cssutils, 'c11', random.Random(0), focus=case.get('focus'))
        w.start(case['seed'])
        for op in case['ops']:
            cssutils.log.raiseExceptions = True
            if not w.step(list(op)):
                break
    core.canonical_state(cssutils)
