"""C07 - the CSS codec: round trip, CSS 2.1 detection, chunking invariance (DESIGN section 6, C07).

Monitors on the real cssutils.codec (registered as the 'css' codec of the codecs module):
  detect.final        detectencoding_str/_unicode(x, final=True) == CSS 2.1 4.4 model (models/css21_detect.py)
  detect.monotone     with final=False the answer is 'unknown yet' or the answer every extension leads to
  fix.contract        _fixencoding: None only while undecided; otherwise a prefix-safe rewrite of the name only
  roundtrip           decode(encode(t, E), E) == fix(t, E); with auto-detection when BOM or ASCII-compatible rule
  decode.handmade     bytes with BOM / lying / unknown / late / unterminated rules decode as the model says
  chunking.*          incremental decoder/encoder, codecs.iterdecode/iterencode, stream reader/writer give the
                      one-shot result for every partition of the input (all 2^(n-1) partitions for n <= 12)
"""

import codecs
import io
import itertools

from engine import core
from models import css21_detect as M

PROPERTY = 'C07'
LEVEL = 'exploration'
LEVEL_TEXT = (
    'Exhaustive over the 30 941 byte-class prefixes of length <= 4 (x final flag x extension set) for the detector and over all '
    'partitions of inputs up to 12 units for the incremental/stream classes; sampled (texts x 18 encodings, random partitions of '
    'longer inputs) elsewhere. Every execution is judged against the CSS 2.1 model or against the one-shot result.'
)
LEVEL_NOTE = 'trusted: models/css21_detect.py (A2, 50 lines from CSS 2.1 4.4), Python\'s own codecs for the underlying encodings'
TECHNIQUE = 'runtime monitoring: reference-model oracle for detection (exhaustive prefix table) + metamorphic chunking-invariance oracle over all partitions'
DESIGN_REF = 'DESIGN.md section 6, C07; Appendix A2'
RULE = (
    'detector: every byte string over 13 byte classes up to length 4 x final, plus every prefix of hand-written rule headers; '
    'round trip: 40 texts x 18 encodings; chunking: (text, encoding, API) x all partitions when the input has <= 12 units else 40 random '
    'partitions. distinct_nontrivial = distinct (API, encoding, text class, partition shape) with >= 2 chunks, plus distinct detector inputs of length >= 2'
)
EXHAUSTIVE = {'quick': False, 'thorough': False}
EXHAUSTIVE_NOTE = 'the detector prefix table and the partitions of short inputs are enumerated completely; texts/encodings are a fixed finite list'
ASSUMPTIONS = [
    'text starting with U+0000 under UTF-16 with BOM is excluded (CSS 2.1 itself reads FF FE 00 00 as UTF-32)',
    'the explicit flag of BOM-less UTF-16/32 rows is not asserted',
    "an empty chunk result may be '' or b'' (codecs.iterencode/iterdecode skip falsy chunks)",
]
MIN_EVENTS = {
    'quick': {'oracle.reuse': 3500, 'oracle.reuse-after-refusal': 600, 'oracle.fallback': 40, 'oracle.detect.final': 25000, 'oracle.detect.monotone': 25000, 'oracle.roundtrip': 500, 'oracle.chunking': 20000, 'partitions.exhaustive-inputs': 30},
    'thorough': {'oracle.reuse': 70000, 'oracle.reuse-after-refusal': 12000, 'oracle.fallback': 40, 'oracle.detect.final': 25000, 'oracle.detect.monotone': 25000, 'oracle.roundtrip': 500, 'oracle.chunking': 400000, 'partitions.exhaustive-inputs': 100},
}

CLASSES = [0x00, 0x40, 0x63, 0x68, 0x61, 0xEF, 0xBB, 0xBF, 0xFE, 0xFF, 0x41, 0x22, 0x80]
ENCODINGS = ['utf-8', 'utf-8-sig', 'utf-16', 'utf-16-le', 'utf-16-be', 'utf-32', 'utf-32-le', 'utf-32-be', 'latin-1', 'cp1252',
             'iso-8859-15', 'koi8-r', 'cp1251', 'shift_jis', 'euc-jp', 'gb2312', 'big5', 'ascii']  # fmt: skip
ASCII_COMPAT = {'utf-8', 'latin-1', 'cp1252', 'iso-8859-15', 'koi8-r', 'cp1251', 'shift_jis', 'euc-jp', 'gb2312', 'big5', 'ascii'}
BOM_ENCS = {'utf-8-sig': 'utf-8', 'utf-16': 'utf-16', 'utf-32': 'utf-32'}
TEXTS = [
    '', 'a', 'a{b:c}', 'é', 'Ā{}', '一a', '\u0100', '\U0001f600x', 'a{content:"Жя"}', '中文{}', '@', '@c', '@charset', '@charset ', '@charset "',
    '@charset "x', '@charset "x"', '@charset "x";', '@charset "utf-8";a{}', '@charset "latin-1";é{}', '@charset "koi8-r";Ж{}',
    '@charset "";a', ' @charset "x";a', '@charset \'x\';a', '@CHARSET "x";a', '@charset  "x";a', '@charset "x" ;a', '/**/@charset "x";',
    '@charset "utf-16";b{}', '@charset "UTF-8";a{x:"€"}', '@charsetx', 'a@charset "x";', '@charset "x";@charset "y";', '@charset "shift_jis";テ{}',
    '@import "a";', '\n', '"', '@charset "x"\n;a{}', 'a{}' * 8, '@charset "a-very-long-encoding-name-0123456789";x',
]  # fmt: skip


def codec(cssutils):
    from cssutils import codec as c

    return c


# ---------------------------------------------------------------------------------------------------
def exts_bytes():
    out = [b'']
    out += [bytes([a]) for a in CLASSES]
    out += [bytes([a, b]) for a in CLASSES for b in CLASSES]
    out += [bytes([a, b, c]) for a in (0x00, 0x40, 0x63, 0xFE, 0xFF, 0x41) for b in (0x00, 0x40, 0x63, 0xFE, 0xFF) for c in (0x00, 0x40, 0xFF, 0x41)]
    rule = b'@charset "koi8-r";x'
    out += [rule[k:] for k in range(1, len(rule))]
    out += [b'"', b'x";', b'\x00\x00', b'c\x00h\x00']
    return out


EXTS = exts_bytes()


def answers(b):
    """the set of model answers (encoding only) over the extensions of b"""
    return {M.detect_final(b + e)[0] for e in EXTS}


def check_detect_bytes(ctx, c, b):
    case = {'kind': 'detect', 'bytes': b}
    ctx.count('evaluations', 2)
    try:
        rf = c.detectencoding_str(b, True)
        rn = c.detectencoding_str(b, False)
    except Exception as e:
        ctx.violation('detect.exception', case, {'tb': core.short_tb(e)}, site=core.raise_site(e))
        return
    enc, explicit = M.detect_final(b)
    ctx.count('oracle.detect.final')
    if rf[0] != enc or (explicit is not None and bool(rf[1]) != explicit):
        ctx.violation('detect.final', case, {'got': rf, 'expected': [enc, explicit]})
    ctx.count('oracle.detect.monotone')
    if rn[0] is not None:
        a = answers(b)
        if a != {rn[0]}:
            ctx.violation('detect.monotone', case, {'got_nonfinal': rn, 'answers_over_extensions': sorted(a)})
    else:
        if rn[1]:
            ctx.violation('detect.monotone', case, {'got_nonfinal': rn, 'what': 'unknown yet but flagged explicit'})
        # 'unknown yet' is only an answer while the data is insufficient: once four bytes are there and no
        # charset rule can follow, every continuation leads to the same encoding and the detector must say so
        ctx.count('oracle.detect.decisive')
        if len(b) >= 4 and not b.startswith(b'@cha') and len(answers(b)) == 1:
            ctx.violation('detect.decisive', case, {'got_nonfinal': rn, 'only_possible_answer': sorted(answers(b))})
    if len(b) >= 2:
        ctx.seen(b'D' + b)


def text_features(t):
    if t.startswith('@charset "') and t.find('"', 10) < 0:
        return ['text.unterminated-charset-rule']
    return []


def text_answers(t):
    rest = '@charset "koi8-r";x'
    exts = ['', 'x', '"', '";', ' ', 'a"'] + [rest[k:] for k in range(1, len(rest))]
    return {M.detect_text_final(t + e)[0] for e in exts}


def check_detect_text(ctx, c, t):
    case = {'kind': 'detect-text', 'text': t}
    ctx.count('evaluations', 2)
    try:
        rf = c.detectencoding_unicode(t, True)
        rn = c.detectencoding_unicode(t, False)
    except Exception as e:
        ctx.violation('detect.exception', case, {'tb': core.short_tb(e)}, site=core.raise_site(e))
        return
    exp = M.detect_text_final(t)
    ctx.count('oracle.detect.final')
    if tuple(rf) != exp:
        ctx.violation('detect.final', case, {'got': rf, 'expected': exp}, features=text_features(t))
    ctx.count('oracle.detect.monotone')
    if rn[0] is not None and text_answers(t) != {rn[0]}:
        ctx.violation('detect.monotone', case, {'got_nonfinal': rn, 'answers_over_extensions': sorted(text_answers(t))})
    if len(t) >= 2:
        ctx.seen('U' + t)


def check_fix(ctx, c, t, enc):
    """contract of the real _fixencoding"""
    case = {'kind': 'fix', 'text': t, 'enc': enc}
    ctx.count('evaluations', 2)
    try:
        rf = c._fixencoding(t, enc, True)
        rn = c._fixencoding(t, enc, False)
    except Exception as e:
        ctx.violation('fix.exception', case, {'tb': core.short_tb(e)}, site=core.raise_site(e))
        return
    ctx.count('oracle.fix')
    if rf != M.fix(t, enc):
        ctx.violation('fix.contract', case, {'final': True, 'got': rf, 'expected': M.fix(t, enc)})
    if rn is not None:
        rest = '@charset "koi8-r";x'
        for e in ['', 'x', '"', '";', 'q";z'] + [rest[k:] for k in range(1, len(rest))]:
            full = M.fix(t + e, enc)
            if not full.startswith(rn) or len(full) - len(rn) != len(e) and not (len(rn) <= len(full)):
                ctx.violation('fix.contract', case, {'final': False, 'got': rn, 'extension': e, 'fix_of_extended': full})
                break


# ---------------------------------------------------------------------------------------------------
def encodable(t, enc):
    try:
        t.encode(enc)
        return True
    except (UnicodeEncodeError, LookupError):
        return False


def oneshot_encode(t, enc):
    return codecs.getencoder('css')(t, encoding=enc)[0]


def oneshot_decode(b, enc=None):
    return codecs.getdecoder('css')(b, encoding=enc)[0]


def check_roundtrip(ctx, t, enc):
    case = {'kind': 'roundtrip', 'text': t, 'enc': enc}
    ctx.count('evaluations')
    fixed = M.fix(t, enc)
    if not encodable(fixed, enc):
        # must be an error, never corruption
        try:
            b = oneshot_encode(t, enc)
        except UnicodeEncodeError:
            ctx.count('roundtrip.unencodable-raises')
            return
        except Exception as e:
            ctx.violation('roundtrip.exception', case, {'tb': core.short_tb(e)}, site=core.raise_site(e))
            return
        ctx.violation('roundtrip', case, {'what': 'unencodable text was encoded', 'bytes': b})
        return
    try:
        b = oneshot_encode(t, enc)
        d = oneshot_decode(b, enc)
    except Exception as e:
        ctx.violation('roundtrip.exception', case, {'tb': core.short_tb(e)}, site=core.raise_site(e))
        return
    ctx.count('oracle.roundtrip')
    if b != fixed.encode(enc):
        ctx.violation('roundtrip', case, {'what': 'encoded bytes differ from the plain encoding of the fixed text', 'got': b, 'expected': fixed.encode(enc)})
    if d != fixed:
        ctx.violation('roundtrip', case, {'what': 'decode(encode(t,E),E) != fix(t,E)', 'got': d, 'expected': fixed})
    # auto-detection
    auto = None
    if enc in BOM_ENCS and not (enc == 'utf-16' and t.startswith('\x00')):
        auto = BOM_ENCS[enc]
    elif enc in ASCII_COMPAT and M._RULE.match(t):
        auto = enc
    elif enc == 'utf-8' or (enc in ASCII_COMPAT and all(ord(ch) < 128 for ch in t) and not t.startswith('@charset "')):
        auto = 'utf-8' if enc == 'utf-8' or all(ord(ch) < 128 for ch in t) else None
    if auto is not None:
        ctx.count('oracle.roundtrip.auto')
        try:
            d2 = oneshot_decode(b, None)
        except Exception as e:
            ctx.violation('roundtrip.exception', dict(case, auto=True), {'tb': core.short_tb(e)}, site=core.raise_site(e))
            return
        exp = M.fix(t, auto)
        if d2 != exp:
            ctx.violation('roundtrip', dict(case, auto=True), {'what': 'auto-detected decode differs', 'got': d2, 'expected': exp, 'bytes': b})
    ctx.seen(['R', enc, core.h8(t)])


def check_encode_auto(ctx, t):
    """encode(t) without an encoding takes it from the text's own rule, else UTF-8"""
    case = {'kind': 'encode-auto', 'text': t}
    ctx.count('evaluations')
    name = M.detect_text_final(t)[0]
    try:
        exp = M.fix(t, name).encode(name) if name.replace('_', '-').lower() == 'utf-8-sig' else t.encode(name)
    except (LookupError, UnicodeEncodeError) as e:
        exp = type(e)
    try:
        got = oneshot_encode(t, None)
    except (LookupError, UnicodeEncodeError) as e:
        got = type(e)
    except Exception as e:
        ctx.violation('encode.auto', case, {'tb': core.short_tb(e)}, features=text_features(t), site=core.raise_site(e))
        return
    ctx.count('oracle.encode-auto')
    if got != exp and not (isinstance(exp, type) and isinstance(got, type)):
        ctx.violation('encode.auto', case, {'got': got, 'expected': exp}, features=text_features(t))


HANDMADE = [
    b'\xef\xbb\xbf@charset "koi8-r";\xc3\xa9{}', b'\xff\xfea\x00{\x00}\x00', b'\xfe\xff\x00a\x00{', b'\xff\xfe\x00\x00a\x00\x00\x00',
    b'\x00\x00\xfe\xff\x00\x00\x00a', b'@charset "koi8-r";\xf6{}', b'@charset "latin-1";\xf6{}', b' @charset "koi8-r";\xc3\xa9',
    b'@charset "koi8-r', b'@charset "', b'@charset', b'@\x00c\x00h\x00a\x00', b'\x00@\x00c', b'@\x00\x00\x00c\x00\x00\x00', b'\x00\x00\x00@\x00\x00\x00c',
    b'', b'a', b'\xef\xbb\xbf', b'\xff\xfe', b'\xfe\xff', b'\xef\xbb', b'\xc3\xa9', b'@charset "ascii";a{}', b'@charset "utf-8";\xe2\x82\xac',
]  # fmt: skip


def check_handmade(ctx, b, given):
    case = {'kind': 'handmade', 'bytes': b, 'enc': given}
    ctx.count('evaluations')
    enc = given or M.detect_final(b)[0]
    try:
        plain = b.decode(enc)
    except (UnicodeDecodeError, LookupError):
        plain = None
    try:
        got = oneshot_decode(b, given)
    except (UnicodeDecodeError, LookupError):
        if plain is None:
            ctx.count('handmade.undecodable-raises')
            return
        got = None
    except Exception as e:
        ctx.violation('decode.handmade', case, {'tb': core.short_tb(e)}, site=core.raise_site(e))
        return
    ctx.count('oracle.handmade')
    exp = None if plain is None else M.fix(plain, enc)
    if got != exp:
        ctx.violation('decode.handmade', case, {'got': got, 'expected': exp, 'encoding_that_applies': enc})
    ctx.seen(['H', b.hex(), given])


# ---------------------------------------------------------------------------------------------------
def partitions(n, rng, limit_exhaustive=12, nrandom=40):
    """cut masks for a sequence of n units; exhaustive when small"""
    if n <= 1:
        yield ()
        return
    if n <= limit_exhaustive:
        for mask in range(1 << (n - 1)):
            yield tuple(i + 1 for i in range(n - 1) if mask >> i & 1)
    else:
        yield ()
        yield tuple(range(1, n))
        for _ in range(nrandom):
            k = rng.randint(1, min(n - 1, 6))
            yield tuple(sorted(rng.sample(range(1, n), k)))


def cut(seq, cuts):
    out = []
    prev = 0
    for c in cuts:
        out.append(seq[prev:c])
        prev = c
    out.append(seq[prev:])
    return out


def undecided_text(t):
    return len(t) > 0 and ('@charset "'.startswith(t) or (t.startswith('@charset "') and t.find('"', 10) < 0))


def join_any(chunks, empty):
    out = empty
    for ch in chunks:
        if ch:
            out += ch
    return out


def run_chunking(ctx, t, enc, rng, apis):
    """all/random partitions of one (text, encoding) through the incremental and stream APIs"""
    fixed = M.fix(t, enc)
    if not encodable(fixed, enc):
        return
    try:
        b = oneshot_encode(t, enc)
        d = oneshot_decode(b, enc)
    except Exception:
        return  # reported by the round-trip stream
    nb, nt = len(b), len(t)
    if nb <= 12:
        ctx.count('partitions.exhaustive-inputs')
    feats_text = ['stream.undecided-at-eof'] if undecided_text(t) else []
    undecided_bytes = len(answers(b)) > 1 or undecided_text(d)
    for given in (enc, None):
        if given is None:
            try:
                exp_dec = oneshot_decode(b, None)
            except Exception:
                continue
        else:
            exp_dec = d
        feats_bytes = ['stream.undecided-at-eof'] if (given is None and undecided_bytes) or undecided_text(exp_dec) else []
        cjk = enc in ('shift_jis', 'euc-jp', 'gb2312', 'big5') and any(ord(ch) > 127 for ch in t)
        for cuts in partitions(nb, rng):
            chunks = cut(b, cuts)
            shape = (len(chunks), min(cuts) if cuts else 0)
            # -- incremental decoder
            if 'incdec' in apis:
                ctx.count('evaluations')
                ctx.count('oracle.chunking')
                case = {'kind': 'chunk', 'api': 'incdec', 'text': t, 'enc': enc, 'given': given, 'cuts': list(cuts)}
                try:
                    dec = codecs.getincrementaldecoder('css')(encoding=given)
                    got = join_any([dec.decode(ch, i == len(chunks) - 1) for i, ch in enumerate(chunks)], '')
                    if got != exp_dec:
                        ctx.violation('chunking.incdec', case, {'got': got, 'expected': exp_dec, 'chunks': chunks})
                except Exception as e:
                    ctx.violation('chunking.incdec', case, {'tb': core.short_tb(e)}, site=core.raise_site(e))
            if 'incdec' in apis and len(chunks) <= 8:
                # the schedule as an I/O loop delivers it: one buffer of the caller refilled for every chunk (whatever the decoder keeps
                # must be its own copy), and reads that return nothing in between
                ctx.count('evaluations')
                ctx.count('oracle.chunking')
                ctx.count('oracle.chunking.reused-buffer')
                case = {'kind': 'chunk', 'api': 'incdec-reused-buffer', 'text': t, 'enc': enc, 'given': given, 'cuts': list(cuts)}
                try:
                    dec = codecs.getincrementaldecoder('css')(encoding=given)
                    buf = bytearray()
                    parts = []
                    for i, ch in enumerate(chunks):
                        if i % 2:
                            parts.append(dec.decode(b'', False))
                        buf[:] = ch
                        parts.append(dec.decode(buf, i == len(chunks) - 1))
                        buf[:] = b'\x00' * len(buf)
                    got = join_any(parts, '')
                    if got != exp_dec:
                        ctx.violation('chunking.incdec', case, {'got': got, 'expected': exp_dec, 'chunks': chunks})
                except Exception as e:
                    ctx.violation('chunking.incdec', case, {'tb': core.short_tb(e)}, site=core.raise_site(e))
            if 'iterdecode' in apis and len(chunks) <= 6 and given is None:
                ctx.count('evaluations')
                ctx.count('oracle.chunking')
                case = {'kind': 'chunk', 'api': 'iterdecode', 'text': t, 'enc': enc, 'given': given, 'cuts': list(cuts)}
                try:
                    got = ''.join(codecs.iterdecode(iter(chunks), 'css'))
                    if got != exp_dec:
                        ctx.violation('chunking.iterdecode', case, {'got': got, 'expected': exp_dec})
                except Exception as e:
                    ctx.violation('chunking.iterdecode', case, {'tb': core.short_tb(e)}, site=core.raise_site(e))
            if 'reader' in apis and len(chunks) <= 5:
                ctx.count('evaluations')
                ctx.count('oracle.chunking')
                case = {'kind': 'chunk', 'api': 'reader', 'text': t, 'enc': enc, 'given': given, 'cuts': list(cuts)}
                try:
                    rd = codecs.getreader('css')(io.BytesIO(b), encoding=given)
                    parts = [rd.read(len(ch)) for ch in chunks]
                    parts.append(rd.read())
                    parts.append(rd.read())
                    got = ''.join(parts)
                    if got != exp_dec:
                        ctx.violation('chunking.reader', case, {'got': got, 'expected': exp_dec}, features=feats_bytes)
                except Exception as e:
                    fx = list(feats_bytes)
                    if cjk and isinstance(e, UnicodeDecodeError) and 'incomplete multibyte' in str(e):
                        fx = ['reader.multibytecodec-cut-inside-character']
                    ctx.violation('chunking.reader', case, {'tb': core.short_tb(e)}, features=fx, site=core.raise_site(e))
            if len(chunks) >= 2:
                ctx.seen(['Cd', enc, given, core.h8(t), shape])
    exp_enc_by = {enc: b}
    try:
        exp_enc_by[None] = oneshot_encode(t, None)
    except Exception:
        pass
    for given, exp_enc in exp_enc_by.items():
        for cuts in partitions(nt, rng):
            chunks = cut(t, cuts)
            if 'incenc' in apis:
                ctx.count('evaluations')
                ctx.count('oracle.chunking')
                case = {'kind': 'chunk', 'api': 'incenc', 'text': t, 'enc': enc, 'given': given, 'cuts': list(cuts)}
                try:
                    en = codecs.getincrementalencoder('css')(encoding=given)
                    pre = [en.encode('', False)] if len(cuts) % 2 else []
                    got = join_any(pre + [en.encode(ch, i == len(chunks) - 1) for i, ch in enumerate(chunks)], b'')
                    if got != exp_enc:
                        ctx.violation('chunking.incenc', case, {'got': got, 'expected': exp_enc})
                except Exception as e:
                    ctx.violation('chunking.incenc', case, {'tb': core.short_tb(e)}, site=core.raise_site(e))
            if 'iterencode' in apis and len(chunks) <= 6 and given is None:
                ctx.count('evaluations')
                ctx.count('oracle.chunking')
                case = {'kind': 'chunk', 'api': 'iterencode', 'text': t, 'enc': enc, 'given': given, 'cuts': list(cuts)}
                try:
                    got = b''.join(codecs.iterencode(iter(chunks), 'css'))
                    if got != exp_enc:
                        ctx.violation('chunking.iterencode', case, {'got': got, 'expected': exp_enc})
                except Exception as e:
                    ctx.violation('chunking.iterencode', case, {'tb': core.short_tb(e)}, site=core.raise_site(e))
            if 'writer' in apis and len(chunks) <= 5:
                ctx.count('evaluations')
                ctx.count('oracle.chunking')
                case = {'kind': 'chunk', 'api': 'writer', 'text': t, 'enc': enc, 'given': given, 'cuts': list(cuts)}
                feats = list(feats_text)
                if t == '' and exp_enc:
                    feats = ['stream.undecided-at-eof']  # empty text with a BOM-writing encoding: nothing ever written
                try:
                    st = io.BytesIO()
                    wr = codecs.getwriter('css')(st, encoding=given)
                    # (a write of nothing - before the first characters, between chunks - is part of many schedules)
                    empties = len(cuts) % 3
                    if empties == 1:
                        wr.write('')
                    elif empties == 2:
                        wr.writelines([])
                    for ch in chunks:
                        wr.write(ch)
                        if empties == 2:
                            wr.write('')
                    wr.flush()
                    got = st.getvalue()
                    if got != exp_enc:
                        ctx.violation('chunking.writer', case, {'got': got, 'expected': exp_enc}, features=feats)
                except Exception as e:
                    ctx.violation('chunking.writer', case, {'tb': core.short_tb(e)}, features=feats, site=core.raise_site(e))
            if len(chunks) >= 2:
                ctx.seen(['Ce', enc, given, core.h8(t), len(chunks), min(cuts)])


APIS = ('incdec', 'iterdecode', 'reader', 'incenc', 'iterencode', 'writer')


def rand_cuts(n, rng):
    if n < 2:
        return ()
    return tuple(sorted(rng.sample(range(1, n), min(n - 1, rng.choice([0, 1, 1, 2, 3])))))


def check_reuse(ctx, t1, t2, given, rng, cuts_in=None, abandon_in=None):
    """an incremental encoder/decoder that has handled one document, after reset(), handles the next one like a new object would"""
    try:
        exp_enc = oneshot_encode(t2, given)
        exp_dec = oneshot_decode(exp_enc, given)
        b1 = oneshot_encode(t1, given)
    except Exception:
        ctx.count('reuse.skipped')
        return
    c1t, c2t = cuts_in[0] if cuts_in else rand_cuts(len(t1), rng), cuts_in[1] if cuts_in else rand_cuts(len(t2), rng)
    c1b, c2b = cuts_in[2] if cuts_in else rand_cuts(len(b1), rng), cuts_in[3] if cuts_in else rand_cuts(len(exp_enc), rng)
    # the first document is either finished (final=True) or abandoned half-way
    abandon = abandon_in if abandon_in is not None else rng.random() < 0.3
    case = {'kind': 'reuse', 't1': t1, 't2': t2, 'given': given, 'cuts': [list(c1t), list(c2t), list(c1b), list(c2b)], 'abandon': abandon}
    ctx.count('evaluations')
    ctx.count('oracle.reuse')
    try:
        en = codecs.getincrementalencoder('css')(encoding=given)
        ch1 = cut(t1, c1t)
        for i, ch in enumerate(ch1):
            if abandon and i == len(ch1) - 1:
                break
            en.encode(ch, i == len(ch1) - 1)
        en.reset()
        ch2 = cut(t2, c2t)
        got = join_any([en.encode(ch, i == len(ch2) - 1) for i, ch in enumerate(ch2)], b'')
        if got != exp_enc:
            ctx.violation('reuse.incenc', dict(case, api='incenc'), {'got': got, 'expected': exp_enc})
    except Exception as e:
        ctx.violation('reuse.incenc', dict(case, api='incenc'), {'tb': core.short_tb(e)}, site=core.raise_site(e))
    try:
        dec = codecs.getincrementaldecoder('css')(encoding=given)
        ch1 = cut(b1, c1b)
        for i, ch in enumerate(ch1):
            if abandon and i == len(ch1) - 1:
                break
            dec.decode(ch, i == len(ch1) - 1)
        dec.reset()
        ch2 = cut(exp_enc, c2b)
        got = join_any([dec.decode(ch, i == len(ch2) - 1) for i, ch in enumerate(ch2)], '')
        if got != exp_dec:
            ctx.violation('reuse.incdec', dict(case, api='incdec'), {'got': got, 'expected': exp_dec})
    except Exception as e:
        ctx.violation('reuse.incdec', dict(case, api='incdec'), {'tb': core.short_tb(e)}, site=core.raise_site(e))
    ctx.seen(['R', given, core.h8(t1), core.h8(t2), abandon])


REFUSED_BYTES = [b'@charset "no-such-encoding";a{}', b'@charset "rot13";a{}', b'@charset "css";a{}', b'\xef\xbb\xbf@charset "hex";a', b'@charset "utf-8";\xff\xfe{}', b'\xff\xfe@\x00\xd8',
                 b'@charset "ascii";\xe4', b'@charset "";a{}']
REFUSED_TEXTS = ['@charset "no-such-encoding";a{}', '@charset "rot13";a{}', '@charset "css";a{}', '@charset "ascii";\xe4{}', '@charset "iso-8859-1";\u0416', '@charset "";a{}']


def check_reuse_refused(ctx, first, t2, given, rng, cuts_in=None, final_in=None):
    """round 8: the first document is *refused* (unknown or non-text encoding named, undecodable bytes, unencodable text); after reset()
    the object handles the next document like a new one"""
    try:
        exp_enc = oneshot_encode(t2, given)
        exp_dec = oneshot_decode(exp_enc, given)
    except Exception:
        ctx.count('reuse.skipped')
        return
    isbytes = isinstance(first, bytes)
    c1 = cuts_in[0] if cuts_in else rand_cuts(len(first), rng)
    c2 = cuts_in[1] if cuts_in else rand_cuts(len(exp_enc) if isbytes else len(t2), rng)
    final = final_in if final_in is not None else rng.random() < 0.7
    case = {'kind': 'reuse-refused', 'first': first.decode('latin-1') if isbytes else first, 'bytes': isbytes, 't2': t2, 'given': given, 'cuts': [list(c1), list(c2)], 'final': final}
    ctx.count('evaluations')
    api = 'incdec' if isbytes else 'incenc'
    try:
        obj = (codecs.getincrementaldecoder if isbytes else codecs.getincrementalencoder)('css')(encoding=given)
        refused = False
        ch1 = cut(first, c1)
        try:
            for i, ch in enumerate(ch1):
                (obj.decode if isbytes else obj.encode)(ch, final and i == len(ch1) - 1)
        except (LookupError, ValueError, TypeError):  # (UnicodeError is a ValueError; "css" naming itself is refused with ValueError)
            refused = True
        ctx.count('oracle.reuse-after-refusal' if refused else 'reuse.first-not-refused')
        obj.reset()
        second = exp_enc if isbytes else t2
        ch2 = cut(second, c2)
        got = join_any([(obj.decode if isbytes else obj.encode)(ch, i == len(ch2) - 1) for i, ch in enumerate(ch2)], '' if isbytes else b'')
        exp = exp_dec if isbytes else exp_enc
        if got != exp:
            ctx.violation('reuse.' + api, dict(case, api=api), {'got': got, 'expected': exp, 'first_refused': refused})
    except Exception as e:
        ctx.violation('reuse.' + api, dict(case, api=api), {'tb': core.short_tb(e)}, site=core.raise_site(e))
    ctx.seen(['RR', given, core.h8(case['first']), core.h8(t2), isbytes, final])


REUSE_TEXTS = ['a{b:c}', '@charset "utf-8";a{}', '@charset "iso-8859-1";é{}', '@charset "koi8-r";a{content:"Ж"}', '@charset "utf-16";x{}', '', '@charset "utf-8-sig";é', 'é{content:"Жя"}',
               '@charset "x";a', '@charset "', '@charset "ascii";a{}', '@charset "cp1252";€{}']  # fmt: skip


def reuse_stream(ctx, count):
    for i in range(count):
        if not ctx.mine(i):
            continue
        rng = ctx.rng('reuse', i)
        t1, t2 = rng.choice(REUSE_TEXTS), rng.choice(REUSE_TEXTS)
        given = rng.choice([None, None] + ENCODINGS)
        check_reuse(ctx, t1, t2, given, rng)
        if i % 2 == 0:
            check_reuse_refused(ctx, rng.choice(REFUSED_BYTES + REFUSED_TEXTS), t2, given, rng)


FALLBACK_DOCS = [b'a{content:"\xe4\xf6"}', b'@charset "koi8-r";a{content:"\xe4"}', b'\xef\xbb\xbfa{content:"\xc3\xa4"}', b'a{}', b'', b'@charset "iso-8859-5"; \xe4', b'/* \xb5 */a{x:y}',
                 b'\xff\xfea\x00{\x00}\x00', b'@char', b'@charset "', b'@charset  "x";\xe4']  # fmt: skip


def fallback_stream(ctx):
    """force=False: the given encoding is only a fallback for documents without BOM/@charset; one-shot decoder, incremental decoder
    (all 2-partitions) and stream reader must agree with the model: explicit declaration, else the fallback"""
    import io

    for i, (b, given) in ctx.share([(b, g) for b in FALLBACK_DOCS for g in ('iso-8859-1', 'koi8-r', 'cp437', 'utf-8', 'iso-8859-7')]):
        name, explicit = M.detect_final(b)
        enc = name if explicit else given
        case = {'kind': 'fallback', 'bytes': b, 'given': given}
        ctx.count('evaluations')
        ctx.count('oracle.fallback')
        try:
            import codecs as _c

            lead = 0
            for bom, bname in ((_c.BOM_UTF8, 'utf-8-sig'),):
                if b.startswith(bom) and explicit:
                    lead = 0
            want = b.decode(enc)
            if want.startswith('\ufeff'):
                want = want[1:]
            want = M.fix(want, enc) if explicit or True else want
        except (UnicodeDecodeError, LookupError):
            continue
        results = {}
        try:
            results['oneshot'] = codecs.getdecoder('css')(b, encoding=given, force=False)[0]
            for cut in range(len(b) + 1):
                d = codecs.getincrementaldecoder('css')(encoding=given, force=False)
                results['incremental@%d' % cut] = join_any([d.decode(b[:cut], False), d.decode(b[cut:], True)], '')
            rd = codecs.getreader('css')(io.BytesIO(b), encoding=given, force=False)
            results['reader'] = rd.read() + rd.read()
        except Exception as e:
            feats = ['stream.undecided-at-eof'] if undecided_text(b.decode('latin-1')) or len(answers(b)) > 1 else []
            ctx.violation('fallback.exception', case, {'tb': core.short_tb(e)}, features=feats, site=core.raise_site(e))
            continue
        ref = results['oneshot']
        for k, v in results.items():
            if v != ref:
                feats = ['stream.undecided-at-eof'] if k == 'reader' and (undecided_text(b.decode('latin-1')) or len(answers(b)) > 1) else []
                ctx.violation('fallback.apis-disagree', case, {'api': k, 'got': v, 'oneshot': ref}, features=feats)
                break
        else:
            # the characters (not the rewritten @charset name) are those of the model's encoding
            body_model = b.decode(enc).lstrip('\ufeff')
            strip = lambda t: t.split(';', 1)[1] if t.startswith('@charset "') and ';' in t else t  # noqa: E731
            if strip(ref) != strip(body_model):
                ctx.violation('fallback.encoding', case, {'got': ref, 'model_encoding': enc, 'expected_text': body_model})


def run_worker(ctx):
    cssutils, _ = core.import_repo()
    c = codec(cssutils)
    quick = ctx.tier == 'quick'
    fallback_stream(ctx)
    reuse_stream(ctx, 6000 if quick else 120000)
    # detector prefix table
    idx = 0
    for n in range(0, 5):
        for combo in itertools.product(CLASSES, repeat=n):
            if ctx.mine(idx):
                check_detect_bytes(ctx, c, bytes(combo))
            idx += 1
    hdrs = [b'@charset "koi8-r";a{}', b'@charset "x"', b'\xef\xbb\xbf@charset "utf-8";', b'@charset  "x";', b"@charset 'x';", b'@charsetx "y";', b'@charset ""']
    for i, (h, k) in ctx.share([(h, k) for h in hdrs for k in range(len(h) + 1)]):
        check_detect_bytes(ctx, c, h[:k])
    # unicode detector and _fixencoding on every prefix of the texts
    for i, (t, k) in ctx.share([(t, k) for t in TEXTS for k in range(len(t) + 1)]):
        check_detect_text(ctx, c, t[:k])
        for enc in ('utf-8', 'utf-8-sig', 'UTF_8_SIG', 'koi8-r', 'x'):
            check_fix(ctx, c, t[:k], enc)
    # round trips
    for i, (t, enc) in ctx.share([(t, e) for t in TEXTS for e in ENCODINGS]):
        check_roundtrip(ctx, t, enc)
    for i, t in ctx.share(TEXTS):
        check_encode_auto(ctx, t)
    for i, (b, given) in ctx.share([(b, g) for b in HANDMADE for g in (None, 'utf-8', 'latin-1', 'koi8-r', 'utf-16', 'utf-16-le')]):
        check_handmade(ctx, b, given)
    # chunking
    pairs = [(t, e) for t in TEXTS for e in ENCODINGS]
    for i, (t, enc) in ctx.share(pairs):
        if quick and len(t) > 22:
            continue
        rng = ctx.rng('chunk', i)
        run_chunking(ctx, t, enc, rng, APIS)
        if i % 97 == 0:
            ctx.sample({'stream': 'chunking', 'text': t, 'encoding': enc, 'apis': list(APIS)})
    if not quick:
        # random texts: header variants x random tails, random partitions
        for i in range(40000):
            if not ctx.mine(i):
                continue
            rng = ctx.rng('rtext', i)
            head = rng.choice(['', '@charset "%s";' % rng.choice(ENCODINGS), '@charset "', '@chars', ' @charset "x";'])
            tail = ''.join(rng.choice('ab{}:;"\n éЖ中\U0001f600') for _ in range(rng.randint(0, 14)))
            enc = rng.choice(ENCODINGS)
            check_roundtrip(ctx, head + tail, enc)
            run_chunking(ctx, head + tail, enc, rng, APIS)


def replay(ctx, case):
    cssutils, _ = core.import_repo()
    if case.get('kind') == 'reuse':
        import random

        codec(cssutils)
        check_reuse(ctx, case['t1'], case['t2'], case['given'], random.Random(0), cuts_in=[tuple(x) for x in case['cuts']], abandon_in=case['abandon'])
        return
    if case.get('kind') == 'reuse-refused':
        import random

        codec(cssutils)
        first = case['first'].encode('latin-1') if case['bytes'] else case['first']
        check_reuse_refused(ctx, first, case['t2'], case['given'], random.Random(0), cuts_in=[tuple(x) for x in case['cuts']], final_in=case['final'])
        return
    c = codec(cssutils)
    kind = case.get('kind')
    if kind == 'detect':
        check_detect_bytes(ctx, c, case['bytes'])
    elif kind == 'detect-text':
        check_detect_text(ctx, c, case['text'])
    elif kind == 'fix':
        check_fix(ctx, c, case['text'], case['enc'])
    elif kind == 'roundtrip':
        check_roundtrip(ctx, case['text'], case['enc'])
    elif kind == 'handmade':
        check_handmade(ctx, case['bytes'], case['enc'])
    elif kind == 'encode-auto':
        check_encode_auto(ctx, case['text'])
    elif kind == 'chunk':
        # re-run the whole partition family of that (text, encoding) for the recorded API
        run_chunking(ctx, case['text'], case['enc'], ctx.rng('replay'), (case['api'],))
