"""C04 - syntax errors are contained: only the malformed construct is dropped (DESIGN section 6, C04).

(a) injection: a generated well-formed sheet gets one balanced, invalid construct (malformed declaration, rule with
    invalid selector, unknown or misplaced at-rule; each carrying a marker ident zq<N>) at a declaration or statement
    boundary; the DOM projection minus nodes carrying the marker must equal the projection of the undamaged sheet
    (and the generator's expectation).
(b) truncation: for every prefix of a rendering, every statement / declaration that is complete before the cut is
    still present, unchanged, in the DOM of the prefix."""

from engine import core
from gen import sheets as G
from models import projection as P

PROPERTY = 'C04'
LEVEL = 'exploration'
LEVEL_TEXT = (
    'Metamorphic containment monitor: generated sheets x injection points (statement boundaries at top level and inside @media, '
    'declaration boundaries in style/@page/@font-face/margin-box blocks) x 60 balanced garbage templates; plus every truncation point of '
    'renderings whose statement and declaration offsets are known from construction.'
)
LEVEL_NOTE = 'trusted: the garbage templates are invalid by the CSS 2.1 grammar by construction; models/projection.py'
TECHNIQUE = 'runtime monitoring: metamorphic oracle (damaged vs undamaged DOM projection) + construction oracle for truncation points'
DESIGN_REF = 'DESIGN.md section 6, C04'
RULE = (
    'triples (generated sheet of 2-6 statements, injection point, garbage template instance) and (sheet, cut offset); '
    'distinct_nontrivial = distinct (garbage template, position kind, what follows) combinations and distinct cut positions judged'
)
ASSUMPTIONS = [
    'unbalanced garbage is out of scope by the wording of the property',
    'an unknown at-rule is legitimately kept in the DOM: nodes carrying the marker are subtracted before comparing',
    'a misplaced @import/@charset/@namespace is expected to vanish entirely',
]
MIN_EVENTS = {'quick': {'oracle.injection': 12000, 'oracle.truncation': 15000, 'oracle.truncation-closing': 5000}, 'thorough': {'oracle.injection': 300000, 'oracle.truncation': 400000}}

# ---- garbage --------------------------------------------------------------------------------------------
# (template, starts-with tag); {m} = marker ident
DECL_GARBAGE = [
    ('{m}', 'ident-no-colon'), ('{m} zz: x', 'two-idents'), (': red', 'colon-first'), ('{m}:', 'no-value'), ('{m}: ', 'no-value'),
    ('{m}: x: y', 'double-colon'), ('{m}:: x', 'double-colon'), ('{m} = x', 'delim'), ('{m}: $', 'bad-value-char'), ('{m}: a ! b c', 'bad-priority'),
    ('({m}: b)', 'open-paren'), ('[{m}; b]: c', 'open-bracket'), ('{{{m}: b}}', 'open-brace'), ('{m}(x): 1', 'function'), ('{m}(x; y): 1', 'function'),
    ('"{m}": x', 'string'), ("'{m}': x", 'string'), ('1{m}: x', 'number'), ('#{m}: x', 'hash'), ('@{m} x', 'at-keyword'), ('@{m} x {{a:b}}', 'at-keyword-block'),
    ('{m}: (a; b)', 'semicolon-in-parens'), ('{m}: [a; b] {{c; d}}', 'semicolon-in-brackets'), ('{m}: f(a; b)', 'semicolon-in-function'),
    ('{m}: "a;b" !', 'bad-priority'), ('{m} {{a:b}}', 'nested-block'), ('{m}: a,, b', 'double-comma'), ('{m}: 1 //', 'double-slash'),
    ('.{m}: x', 'delim'), ('{m}: rgb(1,2)', 'bad-color'), ('{m}: url(a b)', 'bad-url'), ('{m}: #12', 'bad-hash'), ('!{m}: x', 'delim'), ('{m}:x!', 'bad-priority'),
    ('<!-- {m}: x', 'cdo'), ('{m}: x -->', 'cdc'), ('{m}: calc(1 +)', 'bad-calc'), ('{m}: ((a))', 'nested-parens'), ('{m}: [({{a;b}})]', 'nested-mixed'),
    ('translate(1px) {m}', 'function-first'), ('rgb(1, 2): {m}', 'function-first'), ('\\7B {m}: x', 'escaped-delimiter-ident'), ('{m} \\28 : x', 'escaped-delimiter-ident'),
    ('{m} ~= x', 'attr-operator-outside'),
    # (round 7) blocks nested more than one deep inside a declaration
    ('{m} {{ a {{ b }} c }}', 'nested-block-deep'), ('$$ {{ {m} {{ b }} c }}', 'nested-block-deep'), ('{m}: x {{ y {{ z {{ }} }} ; w }}', 'nested-block-deep'),
    ('{m} {{ }} {{ {{ ; }} }}', 'nested-block-deep'), ('{m}: f( {{ [ {{ a; b }} ] }} )', 'nested-block-deep'),
]  # fmt: skip
RULE_GARBAGE = [
    ('{m} ! b {{x:1}}', 'selector-delim'), ('{m} $ {{x:1}}', 'selector-delim'), ('{m} > {{x:1}}', 'dangling-combinator'), ('.1{m} {{x:1}}', 'bad-class'),
    ('{m}:: {{x:1}}', 'bad-pseudo'), ('{m}[b=] {{x:1}}', 'bad-attr'), ('{m}, {{x:1}}', 'trailing-comma'), (', {m} {{x:1}}', 'leading-comma'),
    ('{m}(a) {{x:1}}', 'function'), ('({m}) {{x:1}}', 'open-paren'), ('[{m}] b] [ {{x:1}}', 'brackets-ok-balanced'), ('"{m}" {{x:1}}', 'string'),
    ('1{m} {{x:1}}', 'number'), ('{{x:{m}}}', 'no-selector'), ('{m} {m} ( {{ }} ) {{x:1}}', 'block-in-parens'),
    ('{m}:not() {{x:1}}', 'empty-not'), ('{m}..b {{x:1}}', 'double-dot'), ('{m} + + b {{x:1}}', 'double-combinator'), ('#{m}# {{x:1}}', 'bad-hash'),
    ('zz|{m} {{x:1}}', 'undeclared-prefix'), ('{m}:nth-child( {{x:1}} ) {{y:2}}', 'block-in-function'), ('{m} [a="b{{"] ! {{x:1}}', 'brace-in-string'),
    # (round 2) identifiers that are escaped delimiters, attribute operators outside [], constructs that begin with a function token
    ('{m} \\7B  ! {{x:1}}', 'escaped-delimiter-ident'), ('{m} \\28  ! {{x:1}}', 'escaped-delimiter-ident'),
    ('{m} \\5B  ! {{x:1}}', 'escaped-delimiter-ident'), ('{m} \\7D  ! {{x:1}}', 'escaped-delimiter-ident'), ('{m} \\{{ ! {{x:1}}', 'escaped-delimiter-ident'),
    ('{m} ~= b {{x:1}}', 'attr-operator-outside'), ('{m} |= b c {{x:1}}', 'attr-operator-outside'), ('{m} ^= {{x:1}}', 'attr-operator-outside'), ('*= {m} b {{x:1}}', 'attr-operator-outside'),
    ('{m}$=b c {{x:1}}', 'attr-operator-outside'), ('rgb(1, 2) {m} {{y:2}}', 'function-first'), ('translate(1px) {m} ! {{y:2}}', 'function-first'), ('f(g(1)) {m} {{y:2}}', 'function-first'),
]  # fmt: skip
PAGE_GARBAGE = [
    # (a valid margin box whose only declaration is invalid stays as an empty box: that is containment, so only the box itself is damaged here)
    ('@top-left {m} ! {{content:"x"}}', 'bad-margin-box-prelude'), ('@top-right {m}( {{content:"x"}} ) {{y:1}}', 'bad-margin-box-prelude'),
    ('{m} {{ @bottom-center {{ content: "{m}" }} }}', 'margin-box-inside-garbage-block'),
    ('{m} {{ a: calc(1px + 1px) f(g(2)) ; @bottom-center {{ content: "{m}" }} }}', 'margin-box-inside-garbage-block'),
    ('{m}: rgb(1, 2 {{ @top-center {{ content: "{m}" }} }} )', 'margin-box-inside-garbage-block'),
]  # fmt: skip
AT_GARBAGE = [
    ('@{m};', 'unknown'), ('@{m} a b;', 'unknown'), ('@{m} {{a{{b:c}}}}', 'unknown-block'), ('@{m} a(b;c) [d] {{e}}', 'unknown-nesting'),
    ('@{m} "s;{{" ;', 'unknown-string'), ('@import "{m}.css";', 'misplaced-import'), ('@charset "{m}";', 'misplaced-charset'),
    ('@namespace {m} "urn:{m}";', 'misplaced-namespace'), ('@{m} {{ @{m} {{ }} }}', 'unknown-nested'), ('@media {m} $ {{a{{b:c}}}}', 'bad-media-query'),
    ('@page :{m}{m} ! {{margin:0}}', 'bad-page-selector'), ('@font-face {m} {{x:1}}', 'bad-font-face-prelude'), ('@top-left {{content:"{m}"}}', 'margin-box-outside-page'),
    ('@import;', 'import-without-target'), ('@namespace;', 'namespace-without-uri'),
    # the cssutils-specific named @media: anything between the name and the block is an error
    ('@media tv "n{m}" {m} {{a{{b:c}}}}', 'junk-after-media-name'), ('@media tv "n{m}" "x" {{a{{b:c}}}}', 'junk-after-media-name'), ('@media tv "n{m}" [x;y] (z) {{a{{b:c}}}}', 'junk-after-media-name'),
    ('@media "n{m}" tv {{a{{b:c}}}}', 'junk-after-media-name'), ('@media tv, "n{m}" {{a{{b:c}}}}', 'bad-media-query'), ('@media tv and {{a{{{m}:c}}}}', 'bad-media-query'),
    ('@media (min-width:) {{a{{{m}:c}}}}', 'bad-media-query'), ('@media tv (color) {{a{{{m}:c}}}}', 'bad-media-query'), ('@font-face "{m}" {{x:1}}', 'bad-font-face-prelude'),
    ('@page "{m}" {{margin:0}}', 'bad-page-selector'), ('@page a b{m} {{margin:0}}', 'bad-page-selector'), ('@page :first :{m} {{margin:0}}', 'bad-page-selector'),
]  # fmt: skip


def strip_marked(proj, marker='qzm'):
    """remove DOM nodes that carry the injection's marker (the damaged construct itself, when cssutils keeps it)"""

    def marked(x):
        return marker in repr(x)

    def items(its):
        return [it for it in its if not (it[0] in ('other-item',) or (it[0] == 'decl' and marked(it)) or (it[0] == 'comment' and False))]

    out = []
    for r in proj:
        k = r[0]
        if k == 'unknown' and marked(r):
            continue
        if k in ('other-rule', 'margin'):
            continue
        if k == 'style':
            if marked(r[1]):
                continue
            out.append(('style', r[1], items(r[2])))
        elif k == 'media':
            if marked(r[1]):
                continue
            out.append(('media', r[1], strip_marked(r[2], marker)))
        elif k == 'page':
            out.append(('page', r[1], items(r[2]), [(b[0], items(b[1])) for b in r[3]]))
        elif k == 'fontface':
            out.append(('fontface', items(r[1])))
        elif k in ('import', 'namespace', 'charset') and marked(r):
            continue
        else:
            out.append(r)
    return out


def norm(x):
    if isinstance(x, (list, tuple)):
        return [norm(i) for i in x]
    if isinstance(x, dict):
        return {k: norm(v) for k, v in x.items()}
    return x


def has_known_feature(stmts):
    """base sheets containing constructs that are known findings of C02 are not used (their loss is C02's business)"""
    from checks import c02

    return bool(c02.features_of(stmts, 'neutral'))


def inject(rng, stmts, marker):
    """-> (damaged abstract sheet, kind, template tag, position description) or None"""
    kinds = ['decl', 'rule', 'at']
    kind = rng.choice(kinds)

    def mutable(sts):
        out = []
        for st in sts:
            st = list(st)
            if st[0] == 'media':
                st[2] = mutable(st[2])
            out.append(st)
        return out

    stmts = mutable(stmts)
    if kind == 'decl':
        # choose a block
        blocks = []

        def collect(sts, path):
            for i, st in enumerate(sts):
                if st[0] == 'style':
                    blocks.append((st, 2, path + 'style'))
                elif st[0] == 'fontface':
                    blocks.append((st, 1, path + 'fontface'))
                elif st[0] == 'page':
                    blocks.append((st, 3, path + 'page'))
                    # the declaration blocks of its margin boxes
                    st[4] = [[b, list(bi)] for b, bi in st[4]]
                    for box in st[4]:
                        blocks.append((box, 1, path + 'page>margin-box'))
                elif st[0] == 'media':
                    collect(st[2], path + 'media>')

        collect(stmts, '')
        # a block without any declaration serialises as '' (dropped as empty rule) - nothing to compare against
        blocks = [b for b in blocks if any(it[0] == 'decl' for it in b[0][b[1]])]
        if not blocks:
            return None
        st, idx, where = rng.choice(blocks)
        tmpl, tag = rng.choice(DECL_GARBAGE)
        if st[0] == 'page' and rng.random() < 0.5:
            tmpl, tag = rng.choice(PAGE_GARBAGE)
        elif where.endswith('margin-box') and rng.random() < 0.3:
            tmpl, tag = rng.choice([x for x in PAGE_GARBAGE if x[1] == 'margin-box-inside-garbage-block'])
        items = list(st[idx])
        pos = rng.randint(0, len(items))
        follows = items[pos][0] if pos < len(items) else 'end'
        items.insert(pos, ('raw', tmpl.format(m=marker) + ';'))
        st[idx] = items
        return stmts, kind, tag, where + ':' + follows
    tmpl, tag = rng.choice(RULE_GARBAGE if kind == 'rule' else AT_GARBAGE)
    if kind == 'at' and rng.random() < 0.15:
        # a misplaced @namespace that re-declares an existing prefix (or the default namespace) with another URI
        declared = [st[1] for st in stmts if st[0] == 'namespace']
        if declared:
            pfx = rng.choice(declared)
            tmpl, tag = '@namespace ' + ((pfx + ' ') if pfx else '') + '"urn:{m}";', 'misplaced-namespace'
    # statement boundary: top level (after the prologue) or inside @media
    medias = [st for st in stmts if st[0] == 'media']
    if medias and rng.random() < 0.3 and tag not in ('misplaced-import', 'misplaced-charset', 'misplaced-namespace', 'margin-box-outside-page'):
        st = rng.choice(medias)
        body = list(st[2])
        pos = rng.randint(0, len(body))
        follows = body[pos][0] if pos < len(body) else 'end'
        body.insert(pos, ('raw', tmpl.format(m=marker)))
        st[2] = body
        return stmts, kind, tag, 'media:' + follows
    first = 0
    for i, st in enumerate(stmts):
        if st[0] in ('charset', 'import', 'namespace'):
            first = i + 1
    if kind == 'rule' and first > 0 and rng.random() < 0.25:
        # a malformed statement is ignored, so it does not end the @import section (CSS 2.1 4.1.5: "after any non-ignored statement")
        lo = 1 if stmts[0][0] == 'charset' else 0
        pos = rng.randint(lo, first - 1) if first - 1 >= lo else first
        follows = stmts[pos][0] if pos < len(stmts) else 'end'
        stmts.insert(pos, ('raw', tmpl.format(m=marker)))
        return stmts, kind, tag, 'prologue:' + follows
    if tag in ('misplaced-import', 'misplaced-charset', 'misplaced-namespace'):
        # must come after a rule that ends the prologue
        cands = [i + 1 for i, st in enumerate(stmts) if st[0] in ('style', 'media', 'page', 'fontface') and i + 1 > first]
        if not cands:
            return None
        pos = rng.choice(cands)
    else:
        pos = rng.randint(first, len(stmts))
        if pos == 0 and tag in ('unknown', 'unknown-block', 'unknown-nesting', 'unknown-string', 'unknown-nested') and False:
            pass
    follows = stmts[pos][0] if pos < len(stmts) else 'end'
    stmts.insert(pos, ('raw', tmpl.format(m=marker)))
    return stmts, kind, tag, 'top:' + follows


def judge_injection(ctx, cssutils, parser, base, damaged, kind, tag, where, rng, style_axis):
    style = G.style_with(style_axis)
    seed = rng.random()
    import random

    t_base, f1 = G.render2(base, style, random.Random(seed))
    t_dam, f2 = G.render2(damaged, style, random.Random(seed))
    if f1 or f2:
        ctx.count('skipped.rendering-hit-a-known-finding-of-C02')
        return
    ctx.count('evaluations')
    ctx.count('oracle.injection')
    feats = ['garbage.' + kind + '.' + tag]
    case = {'kind': 'injection', 'base': t_base, 'damaged': t_dam, 'garbage': [kind, tag], 'where': where}
    try:
        core.canonical_state(cssutils)
        from checks.c03 import project_nonempty

        p_base = norm(project_nonempty(parser.parseString(t_base)))
        p_dam = norm(strip_marked(project_nonempty(parser.parseString(t_dam))))
    except Exception as e:
        ctx.violation('injection.exception', case, {'tb': core.short_tb(e)}, features=feats, site=core.raise_site(e))
        return
    d = P.diff(p_dam, p_base)
    ctx.seen(['inj', kind, tag, where])
    if d is not None:
        ctx.violation('injection.containment', case, {'diff': d}, features=feats)
        return
    # what the log is asked to show (every message, as an application debugging its sheets would) does not change what is kept
    try:
        ctx.count('oracle.injection-verbose-log')
        with core.LogCapture(cssutils):
            p_verbose = norm(strip_marked(project_nonempty(parser.parseString(t_dam))))
        core.canonical_state(cssutils)
    except Exception as e:
        core.canonical_state(cssutils)
        ctx.violation('injection.exception', dict(case, loglevel='DEBUG'), {'tb': core.short_tb(e)}, features=feats, site=core.raise_site(e))
        return
    d = P.diff(p_verbose, p_base)
    if d is not None:
        ctx.violation('injection.containment', dict(case, loglevel='DEBUG'), {'diff': d, 'what': 'differs only with the log level at DEBUG'}, features=feats)


# ---- truncation ------------------------------------------------------------------------------------------
def render_with_offsets(stmts, rng):
    """neutral rendering built piecewise so that the end offset of every statement and, for style rules, of every
    declaration is known: -> (text, [(stmt index, end offset)], {stmt index: [decl end offsets]})"""
    r = G.Renderer(G.NEUTRAL_STYLE, rng)
    text = ''
    ends = []
    decl_ends = {}
    for i, st in enumerate(stmts):
        if st[0] == 'style' and all(it[0] == 'decl' for it in st[2]):
            head = ','.join(r.selector(s) for s in st[1]) + ' {\n  '
            body = ''
            offs = []
            for j, it in enumerate(st[2]):
                body += r.decl(it, last=False)
                offs.append(len(text) + len(head) + len(body))
                body += '\n  '
            piece = head + body + '}'
            decl_ends[i] = offs
        else:
            piece = r.stmt(st)
        text += piece
        ends.append((i, len(text)))
        text += '\n'
    return text, ends, decl_ends


NC_PARSER = [None]


def judge_truncation(ctx, cssutils, parser, stmts, rng, all_cuts):
    if NC_PARSER[0] is None:
        NC_PARSER[0] = cssutils.CSSParser(parseComments=False)
    text, ends, decl_ends = render_with_offsets(stmts, rng)
    try:
        core.canonical_state(cssutils)
        full = norm(P.project(parser.parseString(text)))
    except Exception as e:
        ctx.violation('truncation.exception', {'kind': 'truncation', 'text': text, 'cut': len(text)}, {'tb': core.short_tb(e)}, site=core.raise_site(e))
        return
    exp_full = norm(G.expected(stmts))
    if full != exp_full:
        return  # C02's business (known findings are filtered before); nothing to compare against
    # number of DOM rules produced by the first k statements
    nrules = [len(G.Expect(stmts).stmts(stmts[:k])) for k in range(len(stmts) + 1)]
    cuts = range(len(text) + 1) if all_cuts else sorted(set(rng.randrange(len(text) + 1) for _ in range(25)))
    for cut in cuts:
        prefix = text[:cut]
        ctx.count('evaluations')
        ctx.count('oracle.truncation')
        k = sum(1 for i, e in ends if e <= cut)  # statements complete before the cut
        case = {'kind': 'truncation', 'text': text, 'cut': cut}
        try:
            core.canonical_state(cssutils)
            got = norm(P.project(parser.parseString(prefix)))
        except Exception as e:
            ctx.violation('truncation.exception', case, {'tb': core.short_tb(e)}, site=core.raise_site(e))
            continue
        # the parser that drops comments sees the same prefix: what it keeps is what the other keeps, minus the comments (also when the cut
        # falls inside a comment)
        try:
            ctx.count('oracle.truncation-nocomments')
            a = norm(P.project(parser.parseString(prefix), comments=False))
            b = norm(P.project(NC_PARSER[0].parseString(prefix), comments=False))
            if a != b:
                ctx.violation('truncation.nocomments-differs', dict(case, parseComments=False), {'diff': P.diff(b, a)})
                continue
        except Exception as e:
            ctx.violation('truncation.exception', dict(case, parseComments=False), {'tb': core.short_tb(e)}, site=core.raise_site(e))
            continue
        want = full[: nrules[k]]
        if got[: nrules[k]] != want:
            ctx.violation('truncation.complete-statements', case, {'diff': P.diff(got[: nrules[k]], want), 'complete_statements': k})
            continue
        # declarations complete before a cut inside a style rule
        if k < len(stmts) and k in decl_ends:
            ndecl = sum(1 for e in decl_ends[k] if e <= cut)
            if ndecl:
                idx = nrules[k]
                wantitems = full[idx][2][:ndecl] if idx < len(full) else None
                gotrule = got[idx] if idx < len(got) else None
                if gotrule is None or gotrule[0] != 'style' or gotrule[2][:ndecl] != wantitems:
                    ctx.violation('truncation.complete-declarations', case, {'complete_declarations': ndecl, 'got': gotrule[2][:ndecl] if gotrule else None, 'want': wantitems})
                    continue
        ctx.seen(['cut', core.h8(text), cut])


def closers(prefix):
    """the text that closes every construct open at the end of `prefix` (CSS 2.1 4.2: at the end of the style sheet all open
    constructs are closed), or None where that is not a plain suffix (inside an escape, an unquoted url, a CDO/at-keyword)"""
    stack = []
    i, n = 0, len(prefix)
    quote = None
    while i < n:
        ch = prefix[i]
        if quote:
            if ch == '\\':
                if i + 1 >= n:
                    return None
                i += 2
                continue
            if ch in '\n\r\f':
                quote = None  # unterminated string ends at the line end
            elif ch == quote:
                quote = None
        elif ch == '\\':
            if i + 1 >= n:
                return None
            i += 2
            continue
        elif prefix.startswith('/*', i):
            j = prefix.find('*/', i + 2)
            if j < 0:
                return '*/' + ''.join(reversed(stack)) if not prefix.endswith('*') or prefix.endswith('/*') else None
            i = j + 2
            continue
        elif ch in '"\'':
            quote = ch
        elif prefix[i : i + 4].lower() == 'url(' and (i == 0 or not (prefix[i - 1].isalnum() or prefix[i - 1] in '-_')):
            j = i + 4
            while j < n and prefix[j] in ' \t\n\r\f':
                j += 1
            if j >= n:
                return None
            if prefix[j] not in '"\'':
                k = prefix.find(')', j)
                if k < 0:
                    return None  # inside an unquoted url
                i = k + 1
                continue
            stack.append(')')
            i = j
            continue
        elif ch in '({[':
            stack.append({'(': ')', '{': '}', '[': ']'}[ch])
        elif ch in ')}]':
            if stack and stack[-1] == ch:
                stack.pop()
        i += 1
    if prefix and (prefix[-1].isalnum() or prefix[-1] in '-_@#.!<-' or ord(prefix[-1]) > 127):
        return None  # the cut may be inside a name, number or keyword: appending closers would not be a pure closing
    return (quote or '') + ''.join(reversed(stack))


def items_equal_but_last_decl(x, y):
    """two item lists are equal, or differ only in the declaration that was being written when the input ended"""
    x, y = list(x), list(y)
    if x == y:
        return True

    def drop(z):
        return z[:-1] if z and z[-1] and z[-1][0] == 'decl' else None

    dx, dy = drop(x), drop(y)
    return (dx is not None and dx == y) or (dy is not None and x == dy) or (dx is not None and dy is not None and dx == dy)


def closing_equal(a, b):
    """what closing at the end of input must not change: every rule but the last completely; of the last one its kind, prelude and
    all declarations but the final one (whether an unfinished value like 'calc(' still makes a declaration is not fixed by the
    rule); unknown at-rules literally"""
    a, b = norm(a), norm(b)
    if a == b:
        return True
    if len(a) != len(b) or a[:-1] != b[:-1]:
        # the last rule itself may exist on one side only when nothing of it but an unfinished declaration was there
        # (whether the construct that was being written when the input ended still makes a rule is not fixed by the property:
        # '@x ' is a rule at the end of input but '@x }' is not; cssutils drops an unknown at-rule cut inside a nested block)
        if len(a) == len(b) + 1 and a[:-1] == b:
            return True
        if len(b) == len(a) + 1 and b[:-1] == a:
            return True
        return False

    def last_equal(r, q):
        if r[0] != q[0]:
            return False
        k = r[0]
        if k == 'style':
            return r[1] == q[1] and items_equal_but_last_decl(r[2], q[2])
        if k == 'fontface':
            return items_equal_but_last_decl(r[1], q[1])
        if k == 'page':
            if r[1] != q[1]:
                return False
            if r[3] or q[3]:
                if r[2] != q[2] or len(r[3]) != len(q[3]) or r[3][:-1] != q[3][:-1]:
                    return False
                return r[3][-1][0] == q[3][-1][0] and items_equal_but_last_decl(r[3][-1][1], q[3][-1][1])
            return items_equal_but_last_decl(r[2], q[2])
        if k == 'media':
            if r[1] != q[1]:
                return False
            return closing_equal(r[2], q[2])
        return r == q

    return last_equal(a[-1], b[-1])


MIXED = ['@keyframes k{from{a:calc(1px + (2px * [3', '@supports (a:b) and (c:f(1,[2,{3', '@x y{z:f([1,(2', '@font-feature-values f{@styleset{a:(1 [2', '@media print{@x{a:f(1,[2',
         'a{b:f([1,(2', '@page{@top-left{content:f((1,[2', 'a[b="c"]{d:e(f[g(h', '@x (a[b{c(d', '@import url("a.css") (min-width:calc(1px + [2']  # fmt: skip


def judge_closing(ctx, cssutils, parser, text):
    """a sheet cut anywhere parses like the same prefix with every open construct closed explicitly"""
    for cut in range(1, len(text) + 1):
        prefix = text[:cut]
        cl = closers(prefix)
        if not cl:
            continue
        ctx.count('evaluations')
        ctx.count('oracle.truncation-closing')
        case = {'kind': 'closing', 'prefix': prefix, 'closers': cl}
        try:
            core.canonical_state(cssutils)
            a = norm(P.project(parser.parseString(prefix)))
            b = norm(P.project(parser.parseString(prefix + cl)))
        except Exception as e:
            ctx.violation('truncation.exception', case, {'tb': core.short_tb(e)}, site=core.raise_site(e))
            continue
        if not closing_equal(a, b):
            ctx.violation('truncation.closing', case, {'diff': P.diff(a, b)})
            break
        # what is kept of the cut construct is kept in closed form: it survives serialise + parse, and an unknown at-rule (opaque
        # text that is simply closed) reads like the explicitly closed one
        try:
            s1 = parser.parseString(prefix)
            s2 = parser.parseString(prefix + cl)
            again = parser.parseString(s1.cssText)
        except Exception as e:
            ctx.violation('truncation.exception', case, {'tb': core.short_tb(e), 'stage': 'serialise'}, site=core.raise_site(e))
            continue
        n1 = [type(r).__name__ for r in s1.cssRules if r.cssText]
        n3 = [type(r).__name__ for r in again.cssRules]
        if n1 != n3:
            ctx.violation('truncation.closing', case, {'what': 'the DOM of the cut text does not survive serialise + parse', 'rules': n1, 'after': n3, 'text': s1.cssText.decode('utf-8', 'replace')[-200:]})
            break
        if len(s1.cssRules) and len(s1.cssRules) == len(s2.cssRules) and type(s1.cssRules[-1]).__name__ == 'CSSUnknownRule' == type(s2.cssRules[-1]).__name__:
            if s1.cssRules[-1].cssText != s2.cssRules[-1].cssText:
                ctx.violation('truncation.closing', case, {'what': 'unknown at-rule closed differently', 'cut': s1.cssRules[-1].cssText[-120:], 'closed': s2.cssRules[-1].cssText[-120:]})
                break


def run_worker(ctx):
    cssutils, _ = core.import_repo()
    parser = cssutils.CSSParser()
    quick = ctx.tier == 'quick'
    n = 2600 if quick else 60000
    made = 0
    for i in range(n):
        if not ctx.mine(i):
            continue
        rng = ctx.rng('base', i)
        g = G.Gen(rng, namespaces=rng.random() < 0.3, max_stmts=5)
        base = g.sheet()
        if has_known_feature(base):
            continue
        for j in range(6):
            r2 = ctx.rng('inj', i * 10 + j)
            res = inject(r2, base, 'qzm%d' % r2.randint(1, 99))
            if res is None:
                continue
            damaged, kind, tag, where = res
            axis = r2.choice(['neutral', 'neutral', 'ws', 'ws-min', 'comments', 'case'])
            judge_injection(ctx, cssutils, parser, base, damaged, kind, tag, where, r2, axis)
            made += 1
            if made <= 4:
                ctx.sample({'stream': 'injection', 'garbage': [kind, tag], 'where': where, 'damaged': G.render(damaged, G.NEUTRAL_STYLE, ctx.rng('s', i))[:400]})
    n = 330 if quick else 6000
    for i in range(n):
        if not ctx.mine(i):
            continue
        rng = ctx.rng('trunc', i)
        g = G.Gen(rng, namespaces=False, max_stmts=3)
        stmts = g.sheet()
        if has_known_feature(stmts):
            continue
        judge_truncation(ctx, cssutils, parser, stmts, ctx.rng('trender', i), all_cuts=(i % 4 == 0))
    # explicit closing: hand-made texts with several kinds of brackets open, and generated sheets
    for i, t in ctx.share(MIXED):
        judge_closing(ctx, cssutils, parser, t)
    n = 160 if quick else 4000
    for i in range(n):
        if not ctx.mine(i):
            continue
        rng = ctx.rng('close', i)
        g = G.Gen(rng, namespaces=False, max_stmts=3)
        stmts = g.sheet()
        if has_known_feature(stmts):
            continue
        text, feats = G.render2(stmts, G.style_with(rng.choice(['neutral', 'ws-min'])), ctx.rng('crender', i))
        if feats or len(text) > 500:
            continue
        judge_closing(ctx, cssutils, parser, text)


def replay(ctx, case):
    cssutils, _ = core.import_repo()
    parser = cssutils.CSSParser()
    core.canonical_state(cssutils)
    if case.get('kind') == 'closing':
        a = norm(P.project(parser.parseString(case['prefix'])))
        b = norm(P.project(parser.parseString(case['prefix'] + case['closers'])))
        if not closing_equal(a, b):
            ctx.violation('truncation.closing', case, {'diff': P.diff(a, b)})
        return
    if case.get('kind') == 'injection':
        from checks.c03 import project_nonempty

        feats = case.get('features') or ['garbage.%s.%s' % tuple(case.get('garbage', ['?', '?']))]
        try:
            p_base = norm(project_nonempty(parser.parseString(case['base'])))
            p_dam = norm(strip_marked(project_nonempty(parser.parseString(case['damaged']))))
        except Exception as e:
            ctx.violation('injection.exception', case, {'tb': core.short_tb(e)}, features=feats, site=core.raise_site(e))
            return
        d = P.diff(p_dam, p_base)
        if d is not None:
            ctx.violation('injection.containment', case, {'diff': d}, features=case.get('features') or ['garbage.%s.%s' % tuple(case.get('garbage', ['?', '?']))])
    elif case.get('kind') == 'truncation':
        text, cut = case['text'], case['cut']
        full = norm(P.project(parser.parseString(text)))
        got = norm(P.project(parser.parseString(text[:cut])))
        # statement-level only: every rule of the full DOM that ends before the cut
        n = 0
        while n < len(got) - 1 and n < len(full) and got[n] == full[n]:
            n += 1
        ctx.note('replay compares the leading rules: %d equal' % n)
        if case.get('expect_rules') is not None and got[: case['expect_rules']] != full[: case['expect_rules']]:
            ctx.violation('truncation.complete-statements', case, {'equal_leading_rules': n})
