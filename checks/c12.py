"""C12 - no hidden state: history-independent results, global modes restored (DESIGN section 6, C12).

Three monitors over random histories of earlier calls (malformed input, rejected DOM edits, injected faults):

 sentinels   around every parse-family call: cssutils.log.raiseExceptions, vars(cssutils.ser.prefs), identity of cssutils.ser and the
             signature of the profile registry at exit (return or raise) equal those at entry - for both error modes at entry
 battery     a fixed probe battery (parse + serialise of reference texts incl. log output, validation verdicts, DOM edits that must
             raise / must not, a profile added and removed again) gives, after any history, the results a fresh process gives
 reuse       a CSSParser object reused after any history (including calls of its own that raised) gives the result of its first call

Faults: undecodable bytes, fetchers raising Exception/OSError/BaseException subclasses at the 1st..nth import, missing files, failing
URL fetch, parsers in raising mode, csscombine with failing inputs, truncated @page/@media/value fragments that use the shared
tokenizer's push-back queue and the saved-token hand-over."""

import json
import os
import subprocess
import sys
import xml.dom

from engine import core

PROPERTY = 'C12'
LEVEL = 'exploration'
LEVEL_TEXT = (
    'Random histories (quick 1600, thorough 40000) of 5-40 earlier calls drawn from ~45 operation kinds (malformed parses, rejected DOM edits, '
    'fault injections) each followed by the probe battery compared with the result of a fresh process; sentinels sampled around every '
    'parse-family call in both error modes; reused parser objects compared with their first call.'
)
LEVEL_NOTE = 'trusted: the probe battery as a detector of result differences (65 probes); state that no probe can observe is out of reach'
TECHNIQUE = 'runtime monitoring: global-state sentinels around every parse-family call + differential probe battery against a fresh process after random call/fault histories'
DESIGN_REF = 'DESIGN.md section 6, C12'
RULE = 'history x later call; distinct_nontrivial = distinct (previous operation kind, operation kind, outcome) triples in the histories explored'
EXHAUSTIVE = {'quick': False, 'thorough': False}
ASSUMPTIONS = [
    'explicit changes of preferences/profiles/serializer made by a history are undone explicitly by that history (they are inputs, not hidden state)',
    'caches that cannot change results (_TOKENIZER_CACHE, compiled regexes) and the logging handler set are not state in the sense of the property',
    'the shared tokenizer queue and savedTokens are diagnostics only: a non-empty queue is counted, a differing battery result is the verdict',
]
MIN_EVENTS = {
    'quick': {'oracle.sentinels': 13000, 'oracle.battery': 4000, 'oracle.reuse': 4000, 'faults.injected': 9000, 'calls.raised': 9000},
    'thorough': {'oracle.sentinels': 330000, 'oracle.battery': 100000, 'oracle.reuse': 100000, 'faults.injected': 220000, 'calls.raised': 250000},
}

# ------------------------------------------------------------------------------------------------ probe battery
PROBE_TEXTS = [
    'a{top:0}',
    '@charset "utf-8";@import "x.css" print;@namespace n "u";n|a, b>c{color:red;width:1px!important}',
    '@media print and (min-width:1px){a{left:0}@media tv{b{top:0}}}',
    '@page :first{margin:1cm;@top-left{content:"x"}}',
    '@font-face{font-family:f;src:url(f.woff)}',
    '@variables{v:red}a{color:var(v)}',
    'a{x:f(;;',
    '@page{@top-left{content:',
    '@media print and (',
    'a{width:calc( 1px + 2px );background:url( "a b" ) no-repeat}',
    'a:not(b)::before, [x|="y"]{content:"\\41 \\"";top:-.5em}',
    '/*c*/a/*d*/{/*e*/top/*f*/:/*g*/0/*h*/}',
    'a{top:0;;left:)}b{color:#FF0000;color:RGB(1,2,3)}',
    '@unknown x {y};a{$top:1}',
    'a{color:nosuch;width:1;nosuchprop:1}',
    '<!-- a{top:0} -->',
    'a{top:0}}b{left:0}',
    '@import url(y.css) tv, print;@import "z.css" 3d;',
    'a{font:12px/1.5 "A B", serif;margin:1px 2px 3px 4px}',
    '﻿a{top:0}',
]
PROBE_BYTES = [b'@charset "iso-8859-1";a{content:"\xe4"}', b'\xef\xbb\xbfa{top:0}', b'a{content:"\xc3\xa4"}']
PROBE_STYLES = ['top:0;left:1px !important', 'color:red;color:', 'width:calc(1px + 2px', '/*c*/top:)']
PROBE_EDITS = [
    # (sheet text, edit, must raise)
    ('a{top:0}', lambda s: s.insertRule('@import "x";', 1), True),
    ('a{top:0}', lambda s: s.insertRule('@import "x";', 0), False),
    ('a{top:0}', lambda s: setattr(s.cssRules[0], 'selectorText', 'zz|b'), True),
    ('a{top:0}', lambda s: setattr(s.cssRules[0], 'selectorText', 'b, c'), False),
    ('a{top:0}', lambda s: s.cssRules[0].style.setProperty('left', ')'), True),
    ('a{top:0}', lambda s: s.cssRules[0].style.setProperty('left', '1px'), False),
    ('@media print{a{top:0}}', lambda s: setattr(s.cssRules[0].media, 'mediaText', '3d'), True),
    ('@media print{a{top:0}}', lambda s: s.cssRules[0].add('@import "x";'), True),
    ('@page{margin:0}', lambda s: setattr(s.cssRules[0], 'selectorText', ':nosuch'), True),
    ('@namespace p "u";p|a{top:0}', lambda s: s.namespaces.__delitem__('p'), True),
]
PROBE_VALIDATE = [('color', 'red'), ('color', '1px'), ('width', '-1px'), ('-x-probe', 'on'), ('-x-probe', 'off'), ('nosuch', '1'), ('src', 'url(a)'), ('font-family', 'a b'),
                  ('opacity', '0.5'), ('text-shadow', 'none'), ('resize', 'both'), ('box-sizing', 'border-box'), ('overflow-x', 'hidden'), ('color', 'rgba(1,2,3,0.5)')]


def fetcher_ok(url):
    return None, {'x.css': 'x{top:0}', 'y.css': '@import "x.css";y{left:0}', 'z.css': 'z{right:0}'}.get(url.rsplit('/', 1)[-1], '')


def battery(c, variant=0):
    """returns a JSON-able list; canonical explicit state first (explicit settings are inputs, not hidden state)"""
    import logging

    out = []
    # explicit settings only; nothing here may *read* library state before the first probe (a fresh process must really be fresh)
    c.log.raiseExceptions = False
    c.log.setLevel(logging.FATAL)
    c.ser.prefs.useDefaults()

    def run(label, fn):
        with core.LogCapture(c) as cap:
            try:
                r = fn()
            except BaseException as e:  # noqa: B036
                r = 'EXC %s: %s' % (type(e).__name__, str(e)[:120])
        out.append([label, r, [[lv, m] for lv, m in cap.records if lv >= logging.WARNING][:12]])

    def sheet_result(s):
        t = s.cssText
        return [t.decode('utf-8', 'replace') if isinstance(t, bytes) else t, s.encoding, len(s.cssRules), bool(s.valid) if hasattr(s, 'valid') else None]

    # first of all (nothing in this battery has validated anything yet): a profile added and removed again; validation through every route
    def profile_probe():
        res = []
        c.profile.addProfile('x-probe', {'-x-probe': 'on|{num}'}, {'num': '[0-9]+'})
        try:
            for n, v in PROBE_VALIDATE:
                res.append([n, v, c.profile.validate(n, v), list(c.profile.validateWithProfile(n, v))[:2], c.css.Property(n, v).valid])
            res.append(c.parseString('a{-x-probe:on;-x-probe:7;-x-probe:no;color:red}').valid)
        finally:
            c.profile.removeProfile('x-probe')
        res.append(sorted(c.profile.profiles))
        res.append([c.profile.validate('-x-probe', 'on'), c.css.Property('color', 'red').valid])
        return res

    # explicitly restricted default profiles (an input), explicitly reset afterwards
    def restricted_probe():
        res = []
        c.profile.defaultProfiles = c.profile.CSS_LEVEL_2
        try:
            for n, v in PROBE_VALIDATE:
                res.append([n, v, list(c.profile.validateWithProfile(n, v))[:2], c.css.Property(n, v).valid])
            res.append(c.parseString('a{opacity:0.5;color:red;resize:both}').cssRules[0].style.valid)
        finally:
            c.profile.defaultProfiles = None
        res.append([list(c.profile.validateWithProfile('opacity', '0.5'))[:2], c.css.Property('opacity', '0.5').valid])
        return res

    if variant == 1:
        # the other order: nothing has been validated, added or removed before the restricted probe
        run('restricted-profiles-first', restricted_probe)
    run('profile', profile_probe)
    for i, t in enumerate(PROBE_TEXTS):
        run('parse%d' % i, lambda t=t: sheet_result(c.parseString(t)))
    run('parse-fetch', lambda: sheet_result(c.CSSParser(fetcher=fetcher_ok).parseString('@import "y.css";a{top:0}', href='http://h/s.css')))
    run('resolve', lambda: sheet_result(c.resolveImports(c.CSSParser(fetcher=fetcher_ok).parseString('@import "y.css";a{top:0}', href='http://h/s.css'))))
    for i, b in enumerate(PROBE_BYTES):
        run('bytes%d' % i, lambda b=b: sheet_result(c.parseString(b)))
    for i, t in enumerate(PROBE_STYLES):
        run('style%d' % i, lambda t=t: c.parseStyle(t).cssText)
    c.log.raiseExceptions = True
    for i, (text, edit, must) in enumerate(PROBE_EDITS):

        def one(text=text, edit=edit):
            s = c.parseString(text)
            c.log.raiseExceptions = True
            try:
                edit(s)
                return ['ok', s.cssText.decode()]
            except xml.dom.DOMException as e:
                return ['raised', type(e).__name__, s.cssText.decode()]

        run('edit%d' % i, one)
    core.canonical_state(c, raising=False)
    run('profile-again', profile_probe)
    run('restricted-profiles', restricted_probe)
    run('prefs', lambda: sorted((k, repr(v)) for k, v in vars(c.ser.prefs).items()))
    run('minified', lambda: _with_prefs(c))
    core.canonical_state(c)
    return json.loads(json.dumps(out, default=str))


def _with_prefs(c):
    c.ser.prefs.useMinified()
    try:
        return c.parseString('a { top : 0 ; color : #ff0000 } /*c*/ @media print { b { left : 0.50px } }').cssText.decode()
    finally:
        c.ser.prefs.useDefaults()


def fresh_battery(variant=0):
    """the battery in a fresh interpreter (same tree): the reference"""
    code = 'import sys, json; sys.path.insert(0, %r); from engine import core; from checks import c12; c, _ = core.import_repo(); print("BATTERY" + json.dumps(c12.battery(c, %d)))' % (os.path.dirname(os.path.dirname(os.path.abspath(__file__))), variant)
    r = subprocess.run([sys.executable, '-B', '-c', code], capture_output=True, text=True, timeout=900, env=dict(os.environ))
    for line in r.stdout.splitlines():
        if line.startswith('BATTERY'):
            return json.loads(line[7:])
    raise RuntimeError('fresh battery failed: ' + r.stderr[-400:])


# ------------------------------------------------------------------------------------------------ history operations
class Boom(BaseException):
    """a BaseException subclass thrown by a user callback (like KeyboardInterrupt would be)"""


MALFORMED = ['a{x:f(;;', '@page{@top-left{content:', '@media print and (', 'a{b:c(d(e(', '@import url(', 'a[b=', 'a{top:0', '@media print{a{', 'a{width:calc(1px +',
             '@page :first{margin:1cm;@top-left{', 'a:not(', '@namespace p', '@variables{v:', '@font-face{src:url(', 'a{color:rgb(1,', '}}}{{{', '@charset "x', 'a{b:"unterminated',
             '@media print, {a{}}', 'a{top:0}@import "late";', '@page{@nosuch{}}', 'a{$:1;*top:0;_x:1}', '@media print and (min-width:1px) and {a{}}', 'a,{}b{', '\\', '@', '#', 'a{b:url(x']  # fmt: skip
BAD_BYTES = [b'\xff\xfe\xff', b'@charset "ascii";a{content:"\xe4"}', b'\xef\xbb\xbf@charset "utf-16";a{}', b'a{content:"\xff"}', b'@charset "no-such-codec-zz";a{}', b'\x00\x00\xfe\xff\x00']


def make_fetcher(kind, fail_at):
    state = {'n': 0}

    def fetcher(url):
        state['n'] += 1
        if state['n'] >= fail_at:
            if kind == 'exception':
                raise RuntimeError('fetcher failed')
            if kind == 'oserror':
                raise OSError('fetcher failed')
            if kind == 'boom':
                raise Boom('fetcher interrupted')
            if kind == 'garbage':
                return 12345
            if kind == 'badbytes':
                return None, b'\xff\xfe\xff'
            if kind == 'badtuple':
                return ('utf-8',)
        return None, '@import "n%d.css";f%d{top:0}' % (state['n'], state['n'])

    return fetcher


FETCH_KINDS = ['exception', 'oserror', 'boom', 'garbage', 'badbytes', 'badtuple']
OPS = ['parse-malformed', 'parse-malformed', 'parse-bytes-bad', 'parse-bytes-bad-enc', 'parse-fetch-fault', 'parse-fetch-fault', 'parsefile-missing', 'parseurl-fault', 'parser-raising',
       'parser-raising', 'parsestyle-bad', 'parsestyle-bytes', 'csscombine-fault', 'csscombine-ok', 'resolve-fault', 'replaceurls-fault', 'serialise-fault', 'serialise-fault', 'twin-sheets', 'twin-sheets', 'media-leftover', 'media-leftover', 'dom-reject', 'dom-reject', 'direct-objects',
       'dom-mutator', 'dom-mutator', 'dom-mutator', 'restricted-profiles-roundtrip', 'parse-reentrant', 'parse-reentrant', 'serialise-weird', 'prefs-roundtrip', 'serializer-roundtrip', 'profile-roundtrip', 'validate-some', 'reuse-parser', 'reuse-parser', 'flip-mode', 'geturls', 'parse-ok', 'log-level']  # fmt: skip


class History:
    def __init__(self, ctx, c, rng, reference):
        self.ctx, self.c, self.rng, self.ref = ctx, c, rng, reference
        self.ops = []
        self.parsers = []  # (parser, text, first result)
        self.prev = 'start'

    def sentinel_call(self, label, fn, parse_family=True):
        """run fn between two sentinel samples; returns outcome"""
        c, ctx = self.c, self.ctx
        s = core.Sentinels(c)
        try:
            fn()
            outcome = 'returned'
        except Boom:
            outcome = 'raised'
        except Exception:
            outcome = 'raised'
        if outcome == 'raised':
            ctx.count('calls.raised')
        if parse_family:
            ctx.count('oracle.sentinels')
            d = s.diff()
            if d:
                ctx.violation('sentinels', {'kind': 'history', 'ops': list(self.ops)}, {'call': label, 'outcome': outcome, 'changed': d}, features=[])
                return None
        return outcome

    def step(self, op=None):
        c, rng, ctx = self.c, self.rng, self.ctx
        op = op or [rng.choice(OPS), rng.randrange(10**6)]
        self.ops.append(op)
        try:
            return self._step(op)
        except Exception as e:
            # only the explicit round-trip operations run outside a sentinel call, and they never fail in a fresh process
            ctx.violation('history-dependent-exception', {'kind': 'history', 'ops': list(self.ops)}, {'op': op, 'tb': core.short_tb(e)}, site=core.raise_site(e))
            return False

    def _step(self, op):
        c, rng, ctx = self.c, self.rng, self.ctx
        kind, r = op[0], __import__('random').Random(op[1])
        # the error mode in force when the call starts is part of the quantifier
        if kind == 'flip-mode':
            c.log.raiseExceptions = not c.log.raiseExceptions
            return True
        ctx.count('op.' + kind)
        out = 'returned'
        if kind == 'parse-malformed':
            t = r.choice(MALFORMED) + r.choice(['', '', ' ', ';', '}', r.choice(MALFORMED)])
            out = self.sentinel_call(kind, lambda: c.parseString(t))
        elif kind == 'parse-ok':
            out = self.sentinel_call(kind, lambda: c.parseString(r.choice(PROBE_TEXTS)).cssText)
        elif kind == 'parse-bytes-bad':
            ctx.count('faults.injected')
            b = r.choice(BAD_BYTES)
            out = self.sentinel_call(kind, lambda: c.parseString(b))
        elif kind == 'parse-bytes-bad-enc':
            ctx.count('faults.injected')
            out = self.sentinel_call(kind, lambda: c.parseString('a{content:"\xe4€"}'.encode('utf-8'), encoding=r.choice(['ascii', 'no-such-codec-zz', 'utf-16'])))
        elif kind == 'parse-fetch-fault':
            ctx.count('faults.injected')
            f = make_fetcher(r.choice(FETCH_KINDS), r.randint(1, 3))
            p = c.CSSParser(fetcher=f, raiseExceptions=r.random() < 0.3)
            out = self.sentinel_call(kind, lambda: p.parseString('@import "a.css";@import "b.css";x{top:0}', href='http://h/s.css'))
        elif kind == 'parse-reentrant':
            # the same parser object re-entered while it parses: its fetcher looks at the imported text with the parser itself
            p = c.CSSParser(raiseExceptions=r.random() < 0.4)
            fail = r.random() < 0.3

            def fetcher(url, p=p, fail=fail):
                text = '@import "deeper.css";i{top:0}' if url.endswith('a.css') else 'j{left:0}'
                try:
                    p.parseString(text + (' zz|k{' if fail else ''))
                except Exception:
                    pass
                return None, text

            p.setFetcher(fetcher)
            out = self.sentinel_call(kind, lambda: p.parseString('@import "a.css";x{top:0}', href='http://h/s.css').cssText)
        elif kind == 'parsefile-missing':
            ctx.count('faults.injected')
            out = self.sentinel_call(kind, lambda: c.parseFile('/nonexistent/dir/%d.css' % r.randrange(99)))
        elif kind == 'parseurl-fault':
            ctx.count('faults.injected')
            p = c.CSSParser(fetcher=make_fetcher(r.choice(FETCH_KINDS), 1))
            out = self.sentinel_call(kind, lambda: p.parseUrl('http://h/%d.css' % r.randrange(99)))
        elif kind == 'parser-raising':
            ctx.count('faults.injected')
            p = c.CSSParser(raiseExceptions=True)
            t = r.choice(MALFORMED + ['a{top:0}', 'zz|a{top:0}', 'a{top:0}@import "x";'])
            out = self.sentinel_call(kind, lambda: p.parseString(t))
        elif kind == 'parsestyle-bad':
            t = r.choice(['top:)', 'color:rgb(1,', 'a{}', 'x:f(;;', 'top:0;;;left', '$x:1', 'x:calc(1 +'])
            p = c.CSSParser(raiseExceptions=r.random() < 0.5)
            out = self.sentinel_call(kind, lambda: p.parseStyle(t))
        elif kind == 'parsestyle-bytes':
            ctx.count('faults.injected')
            out = self.sentinel_call(kind, lambda: c.parseStyle(b'content:"\xff\xfe"', encoding=r.choice(['utf-8', 'ascii', 'no-such-codec-zz'])))
        elif kind == 'csscombine-fault':
            ctx.count('faults.injected')
            which = r.randrange(4)
            if which == 0:
                fn = lambda: c.script.csscombine(path='/nonexistent/x.css')  # noqa: E731
            elif which == 1:
                fn = lambda: c.script.csscombine(cssText=b'\xff\xfe\xff', href='http://h/s.css')  # noqa: E731
            elif which == 2:
                fn = lambda: c.script.csscombine(cssText='a{content:"€"}', href='http://h/s.css', targetencoding='no-such-codec-zz')  # noqa: E731
            else:
                fn = lambda: c.script.csscombine(cssText='@import "/nonexistent/q.css";a{top:0}', href='file:///nonexistent/s.css', targetencoding='ascii')  # noqa: E731
            out = self.sentinel_call(kind, fn)
        elif kind == 'csscombine-ok':
            # every argument that is handed on to the serializer, in both settings
            mini, resolve = r.random() < 0.6, r.random() < 0.5
            text = r.choice(['a { top : 0 } /*c*/ b{color:#ff0000}', '@variables{c:#0f0}a { color: var(c) }', '@charset "ascii";a{content:"é"}'])
            out = self.sentinel_call(kind, lambda: c.script.csscombine(cssText=text, href='http://h/s.css', minify=mini, resolveVariables=resolve,
                                                                       targetencoding=r.choice(['utf-8', 'ascii', 'utf-16'])))
        elif kind == 'resolve-fault':
            ctx.count('faults.injected')
            p = c.CSSParser(fetcher=make_fetcher(r.choice(FETCH_KINDS), r.randint(2, 4)))

            def fn():
                s = p.parseString('@import "a.css" print;@import "b.css";x{top:0}', href='http://h/s.css')
                c.resolveImports(s).cssText

            out = self.sentinel_call(kind, fn)
        elif kind == 'replaceurls-fault':
            ctx.count('faults.injected')

            def fn():
                s = c.parseString('a{background:url(a.png)}b{background:url(b.png)}')

                def rep(u):
                    raise RuntimeError('replacer failed')

                c.replaceUrls(s, rep)

            out = self.sentinel_call(kind, fn)
        elif kind == 'serialise-fault':
            # a serialisation that dies half-way (the caller's own doing) says nothing about the next one
            ctx.count('faults.injected')
            which = r.randrange(4)

            def fn():
                s = c.parseString('@media tv{a{background:url(a.png);top:0}}b{background:url(b.png)}@page{@top-left{content:url(c.png)}}')
                if which == 0:
                    c.replaceUrls(s, lambda u: None)  # (a replacer that returns nothing)
                    s.cssText
                elif which == 1:
                    old = c.ser.prefs.propertyNameSpacer
                    c.ser.prefs.propertyNameSpacer = None
                    try:
                        s.cssText
                    finally:
                        c.ser.prefs.propertyNameSpacer = old
                elif which == 2:
                    class Bad:
                        def __str__(self):
                            raise RuntimeError('no text')

                    old = c.ser.prefs.indent
                    c.ser.prefs.indent = Bad()
                    try:
                        s.cssText
                    finally:
                        c.ser.prefs.indent = old
                else:
                    for rule in s.cssRules:
                        if hasattr(rule, 'style'):
                            rule.style.getProperties()[0].propertyValue._seq = None  # (a DOM object damaged by the caller)
                    s.cssText

            out = self.sentinel_call(kind, fn, parse_family=False)
        elif kind == 'geturls':
            out = self.sentinel_call(kind, lambda: list(c.getUrls(c.parseString('@import "i.css";a{background:url(a.png) url(b.png)}'))))
        elif kind == 'dom-reject':
            mode = c.log.raiseExceptions

            def fn():
                s = c.parseString('@namespace p "u";p|a{top:0}@media print{b{left:0}}@page{margin:0}')
                c.log.raiseExceptions = True
                try:
                    r.choice(PROBE_EDITS + [('', lambda s: s.cssRules[2].add('@media 3d{'), True), ('', lambda s: setattr(s, 'cssText', 'a{} @import "x";'), True),
                                            ('', lambda s: setattr(s.cssRules[1].style.getProperties()[0], 'cssText', 'top:)'), True)])[1](s)  # fmt: skip
                finally:
                    c.log.raiseExceptions = mode

            out = self.sentinel_call(kind, fn, parse_family=False)
        elif kind == 'media-leftover':
            # media queries and lists given a text that holds more than they can use (refused or not): whatever the list parser hands
            # back through the shared token store must not reach the next parse
            which = r.randrange(8)
            text = r.choice(['print, junk', 'screen, tty', 'print foo', 'tv and (color) print', 'handheld;', 'screen and (color) (min-width: 100px)', 'tv $', 'tv,'])
            mode = c.log.raiseExceptions

            def fn():
                s = c.parseString('@media print, tv and (color){a{top:0}}@import "x.css" screen, tty;')
                ml = s.cssRules[which % 2].media
                c.log.raiseExceptions = which < 4
                try:
                    if which % 4 == 0:
                        ml[0].mediaText = text
                    elif which % 4 == 1:
                        ml.appendMedium(text)
                    elif which % 4 == 2:
                        ml[1] = text
                    else:
                        ml.append(text)
                finally:
                    c.log.raiseExceptions = mode

            out = self.sentinel_call(kind, fn, parse_family=False)
        elif kind == 'twin-sheets':
            # two sheets that say the same (one parsed from text; the other reached another way: an explicit encoding argument, or the same
            # text followed by an edit that was refused) have the same future
            T = '@charset "iso-8859-1";\n@media print {\n    a {\n        top: 0\n        }\n    }\nb {\n    left: 0\n    }'
            H = 'http://h/twin.css'

            def fetch(url):
                return (None, '@charset "koi8-r";\u0436{top:0}'.encode('koi8-r')) if url.endswith('late.css') else None

            way = r.randrange(5)
            later = r.randrange(3)
            mode = c.log.raiseExceptions
            result = {}

            def fn():
                a = c.CSSParser(fetcher=fetch).parseString(T, href=H)
                if way == 0:
                    b = c.CSSParser(fetcher=fetch).parseString(T.split('\n', 1)[1].encode('iso-8859-1'), encoding='iso-8859-1', href=H)
                else:
                    b = c.CSSParser(fetcher=fetch).parseString(T, href=H)
                    c.log.raiseExceptions = True
                    try:
                        [None,
                         lambda s: setattr(s.cssRules[1], 'cssText', '@media tv {a {top: 0} @import "x";}'),
                         lambda s: setattr(s.cssRules[1].media, 'mediaText', 'tv, 3d'),
                         lambda s: setattr(s.cssRules[2], 'cssText', 'c {left: 0;} d'),
                         lambda s: s.insertRule('@import "late.css";', 3)][way](b)
                    except xml.dom.DOMException:
                        result['refused'] = True
                    finally:
                        c.log.raiseExceptions = mode
                result['same_now'] = a.cssText == b.cssText
                out = []
                for x in (a, b):
                    if later == 0:
                        rule = c.css.CSSImportRule(href='late.css')
                        x.insertRule(rule, 1)
                        out.append((rule.styleSheet.encoding if rule.styleSheet else None, rule.styleSheet.cssText if rule.styleSheet else None, x.cssText))
                    elif later == 1:
                        x.cssRules[1].media.appendMedium('tv')
                        x.cssRules[2].style.setProperty('top', '1px')
                        out.append(x.cssText)
                    else:
                        x.encoding = 'ascii'
                        x.add('\u00e9{top:0}')
                        out.append(x.cssText)
                result['later'] = out

            outc = self.sentinel_call(kind, fn, parse_family=False)
            ctx.count('oracle.twin-sheets')
            if outc == 'returned' and (way == 0 or result.get('refused')):
                if not result.get('same_now'):
                    ctx.violation('twin-sheets', {'kind': 'history', 'ops': list(self.ops)}, {'what': 'the two sheets differ before the later call (a refused edit left a trace / the explicit encoding is not recorded alike)', 'way': way}, features=[])
                    return None
                if result['later'][0] != result['later'][1]:
                    ctx.violation('twin-sheets', {'kind': 'history', 'ops': list(self.ops)}, {'what': 'same text now, different result of the same later call', 'way': way, 'later': later, 'direct': str(result['later'][0])[:300], 'other': str(result['later'][1])[:300]}, features=[])
                    return None
            out = outc
        elif kind == 'dom-mutator':
            from checks import c11

            if not hasattr(self, '_muts'):
                self._muts = c11.mutators(c)
            label, locate, call, inputs, extra = r.choice(self._muts)
            arg = r.choice(inputs + extra)[0]
            mode = c.log.raiseExceptions

            def fn():
                s = c.parseString(c11.BASE)
                c.log.raiseExceptions = r.random() < 0.5
                try:
                    loc = locate(s)
                    if loc and loc[1] is not None:
                        call(loc[1], arg)
                        s.cssText
                finally:
                    c.log.raiseExceptions = mode

            out = self.sentinel_call(kind, fn, parse_family=False)
        elif kind == 'restricted-profiles-roundtrip':
            c.profile.defaultProfiles = r.choice([c.profile.CSS_LEVEL_2, [c.profile.CSS_LEVEL_2, c.profile.CSS3_COLOR]])
            for n, v in r.sample(PROBE_VALIDATE, 4):
                c.profile.validateWithProfile(n, v)
                c.css.Property(n, v).valid
            c.profile.defaultProfiles = None
        elif kind == 'direct-objects':
            t = r.choice(MALFORMED)

            def fn():
                for make in (lambda: c.css.Selector(t), lambda: c.stylesheets.MediaList(t), lambda: c.stylesheets.MediaQuery(t), lambda: c.css.PropertyValue(t),
                             lambda: c.css.CSSPageRule().__setattr__('cssText', '@page{' + t), lambda: c.css.MarginRule().__setattr__('cssText', '@top-left{' + t),
                             lambda: c.css.CSSStyleDeclaration(t), lambda: c.css.CSSMediaRule().__setattr__('cssText', '@media ' + t)):  # fmt: skip
                    try:
                        make()
                    except Exception:
                        pass

            out = self.sentinel_call(kind, fn, parse_family=False)
        elif kind == 'serialise-weird':
            out = self.sentinel_call(kind, lambda: [c.parseString(x).cssText for x in r.sample(MALFORMED, 3)])
        elif kind == 'prefs-roundtrip':
            # explicit change, explicitly undone
            name = r.choice(['indent', 'keepComments', 'omitLastSemicolon', 'lineSeparator', 'validOnly', 'keepEmptyRules'])
            old = getattr(c.ser.prefs, name)
            setattr(c.ser.prefs, name, {'indent': '\t', 'lineSeparator': ''}.get(name, not old if isinstance(old, bool) else old))
            c.parseString('a{top:0}/*c*/b{}').cssText
            setattr(c.ser.prefs, name, old)
        elif kind == 'serializer-roundtrip':
            old = c.ser
            c.setSerializer(c.serialize.CSSSerializer())
            c.ser.prefs.useMinified()
            c.parseString('a{top:0}').cssText
            c.setSerializer(old)
        elif kind == 'profile-roundtrip':
            c.profile.addProfile('x-hist', {'-x-hist': 'a|b'})
            c.profile.validate('-x-hist', 'a')
            c.css.Property('-x-hist', 'c').valid
            c.profile.removeProfile('x-hist')
        elif kind == 'validate-some':
            for n, v in r.sample(PROBE_VALIDATE, 3):
                c.profile.validate(n, v)
                c.profile.validateWithProfile(n, v)
        elif kind == 'log-level':
            pass
        elif kind == 'reuse-parser':
            if self.parsers and r.random() < 0.5:
                if not self.check_reuse(r):
                    return False
            else:
                fetch = r.random() < 0.4
                p = c.CSSParser(fetcher=fetcher_ok if fetch else None, raiseExceptions=False, parseComments=r.random() < 0.8, validate=r.random() < 0.8)
                text = r.choice(PROBE_TEXTS + ['@import "y.css";a{top:0}'])
                self.parsers.append((p, text, self.parse_result(p, text), fetch))
        else:
            raise AssertionError(kind)
        ctx.seen([self.prev, kind, out])
        self.prev = kind
        if out is not None and self.parsers and r.random() < 0.4:
            return self.check_reuse(r)
        return out is not None

    def check_reuse(self, r):
        ctx = self.ctx
        p, text, first, fetch = r.choice(self.parsers)
        ctx.count('oracle.reuse')
        # the parser may just have been used on something that raised
        if r.random() < 0.5:
            try:
                p.parseString(r.choice(BAD_BYTES))
            except Exception:
                pass
            ctx.count('calls.raised')
        got = self.parse_result(p, text)
        if got != first:
            ctx.violation('reuse', {'kind': 'history', 'ops': list(self.ops)}, {'text': text, 'first': str(first)[:300], 'now': str(got)[:300]})
            return False
        return True

    def parse_result(self, p, text):
        c = self.c
        mode = c.log.raiseExceptions
        with core.LogCapture(c) as cap:
            try:
                s = p.parseString(text, href='http://h/s.css')
                t = s.cssText
                res = [t.decode('utf-8', 'replace'), len(s.cssRules), [m for m in cap.errors()][:6]]
            except Exception as e:
                res = ['EXC ' + type(e).__name__]
        c.log.raiseExceptions = mode
        return res

    def check_battery(self):
        ctx, c = self.ctx, self.c
        mode = c.log.raiseExceptions
        # diagnostics: the internal queues (not a verdict)
        try:
            pp = c.prodparser
            if getattr(pp, 'savedTokens', None):
                ctx.count('diagnostic.savedTokens-nonempty')
            if getattr(pp.tokenizer, '_pushed', None):
                ctx.count('diagnostic.tokenizer-pushed-nonempty')
        except Exception:
            pass
        variant = len(self.ops) % 2
        ref = self.ref[variant]
        got = battery(c, variant)
        ctx.count('oracle.battery')
        ctx.count('battery.probes', len(got))
        if got != ref:
            diffs = [(a, b) for a, b in zip(ref, got) if a != b][:3]
            ctx.violation('battery', {'kind': 'history', 'ops': list(self.ops)}, {'probes_differing': [d[0][0] for d in diffs], 'fresh': str(diffs[0][0])[:400] if diffs else None,
                                                                                 'after_history': str(diffs[0][1])[:400] if diffs else None})  # fmt: skip
            return False
        c.log.raiseExceptions = mode
        return True


def run_worker(ctx):
    c, _ = core.import_repo()
    import cssutils.script  # noqa: F401  (csscombine)

    quick = ctx.tier == 'quick'
    reference = {0: fresh_battery(0), 1: fresh_battery(1)}
    # the battery is deterministic in a fresh process, and in this one before any history
    again = battery(c)
    if again != reference[0]:
        diffs = [(a, b) for a, b in zip(reference[0], again) if a != b][:2]
        ctx.violation('battery', {'kind': 'history', 'ops': []}, {'what': 'battery differs from the fresh process without any history', 'first': str(diffs)[:600]})
    n = 1600 if quick else 40000
    for i in range(n):
        if not ctx.mine(i):
            continue
        rng = ctx.rng('h', i)
        core.canonical_state(c, raising=rng.random() < 0.5)
        h = History(ctx, c, rng, reference)
        ctx.count('evaluations')
        steps = rng.randint(5, 40)
        ok = True
        for j in range(steps):
            if not h.step():
                ok = False
                break
            if rng.random() < 0.12:
                if not h.check_battery():
                    ok = False
                    break
        if ok:
            h.check_battery()
        core.canonical_state(c)
    ctx.extra['battery_probes'] = len(reference[0])
    ctx.sample({'history': [['parse-bytes-bad', 1], ['parser-raising', 2], ['flip-mode', 0], ['parse-fetch-fault', 3]], 'then': 'battery == fresh process'})


def replay(ctx, case):
    c, _ = core.import_repo()
    import random

    import cssutils.script  # noqa: F401

    reference = {0: fresh_battery(0), 1: fresh_battery(1)}
    for start_mode in (True, False):
        core.canonical_state(c, raising=start_mode)
        h = History(ctx, c, random.Random(0), reference)
        for op in case['ops']:
            if not h.step(list(op)):
                break
        else:
            h.check_battery()
    core.canonical_state(c)
