"""C20 - encutils reports the document encoding by the documented precedence (DESIGN section 6, C20).

The decision table (media-type class x transport charset x XML declaration/BOM x meta x agree/disagree x
text/bytes x spelling variants) is enumerated completely against models/encutils_table.py."""

import codecs
import io
import itertools
import logging
from email.message import Message

from engine import core
from models import encutils_table as M

PROPERTY = 'C20'
LEVEL = 'exploration'
LEVEL_TEXT = (
    'The finite decision table named in the property is enumerated completely (exhaustive: true for that sub-space, ~12 k rows) against '
    'an independently written decision procedure, every row executed through the real encutils.getEncodingInfo with stub responses; '
    'the sniffers (detectXMLEncoding, getMetaInfo, encodingByMediaType) additionally run on generated and mutated documents.'
)
LEVEL_NOTE = 'trusted: models/encutils_table.py (A3, 60 lines, written from the docstring/RFC 3023); email.message.Message as the header parser'
TECHNIQUE = 'runtime monitoring: exhaustive decision-table enumeration against an independent reference procedure + post-conditions on the sniffers'
DESIGN_REF = 'DESIGN.md section 6, C20; Appendix A3'
RULE = (
    'rows = media type (22 spellings over the 7 classes incl. no response and response without header) x transport charset '
    '(none, utf-8, ISO-8859-1 upper case, koi8-r) x XML prolog (none, declaration without/with encoding in 3 encodings, BOM utf-8/16le/16be, '
    'short document) x meta (none, charset in 3 encodings, meta without charset, two metas) x document as text/bytes; '
    'distinct_nontrivial = distinct (class, http?, xml source, meta?, agree/disagree pattern, text/bytes) rows with at least one source known'
)
EXHAUSTIVE = {'quick': True, 'thorough': True}
EXHAUSTIVE_NOTE = 'the decision table is enumerated completely in both tiers; sniffer fuzzing is sampled'
ASSUMPTIONS = [
    'an absent media type is modelled as "no response object"; a response without Content-Type reports text/plain (email.message)',
    'encoding names are compared literally after lower-casing, except BOM results which are compared as codecs (utf_16_le == utf-16-le)',
    'XML declarations are written without white space around "=" (the sniffer is documented as "not overly exact")',
]
MIN_EVENTS = {'quick': {'evaluations': 8000, 'rows.bytes': 3000, 'oracle.streampos': 200, 'rows.after-history': 5000, 'rows.other-log-level': 20000},
              'thorough': {'evaluations': 8000, 'rows.bytes': 3000, 'oracle.streampos': 2000, 'rows.other-log-level': 20000}}

MEDIA = [
    None, '', 'application/xml', 'APPLICATION/XML', 'application/xml-dtd', 'application/xml-external-parsed-entity',
    'application/rss+xml', 'application/xhtml+xml', 'text/xml', 'Text/XML', 'text/xml-external-parsed-entity', 'text/foo+xml',
    'text/html', 'TEXT/HTML', 'text/css', 'text/CSS', 'text/plain', 'text/javascript', 'application/octet-stream', 'image/png',
    'application/json', 'text/xmlish',
    # structured-syntax suffixes in subtypes with dots, further '+' and digits; parameters and case
    'application/vnd.mozilla.xul+xml', 'application/vnd.google-earth.kml+xml', 'application/xhtml+voice+xml', 'text/vnd.x.y+xml', 'APPLICATION/ATOM+XML', 'application/x.a_b-1+xml',
    'application/xml+foo', 'application/vnd.foo+json', 'text/x.html',
]  # None = no response object; '' = response without Content-Type header
CHARSETS = [None, 'utf-8', 'ISO-8859-1', 'koi8-r', 'EMPTY', 'EMPTYQ']  # EMPTY: a charset parameter without value (charset=), EMPTYQ: charset="" - both name no encoding
XMLS = [
    ('none', ''), ('decl-noenc', '<?xml version="1.0"?>'), ('decl-utf-8', '<?xml version="1.0" encoding="utf-8"?>'),
    ('decl-latin', "<?xml version='1.0' encoding='ISO-8859-1' standalone='yes'?>"), ('decl-koi', '<?xml version="1.0" encoding="koi8-r" ?>'),
    ('bom-utf8', '\xef\xbb\xbf<?xml version="1.0" encoding="utf-8"?>'), ('bom-16le', '\xff\xfe<\x00?\x00'), ('bom-16be', '\xfe\xff\x00<\x00?'),
    ('late-decl', '\n<?xml version="1.0" encoding="koi8-r"?>'),
]  # fmt: skip
METAS = [
    ('none', '', None),
    ('utf-8', '<meta http-equiv="Content-Type" content="text/html; charset=utf-8">', 'utf-8'),
    ('latin', "<META HTTP-EQUIV='content-type' CONTENT='text/html;charset=ISO-8859-1' />", 'iso-8859-1'),
    ('koi', '<meta content="text/html; charset=koi8-r" http-equiv="Content-Type">', 'koi8-r'),
    ('nocharset', '<meta http-equiv="Content-Type" content="text/html">', None),
    ('two', '<meta http-equiv="Content-Type" content="text/html; charset=koi8-r"><meta http-equiv="Content-Type" content="text/html; charset=utf-8">', 'koi8-r'),
    ('other-meta', '<meta name="x" content="text/html; charset=utf-8">', None),
    ('empty', '<meta http-equiv="Content-Type" content="text/html; charset=">', None),
    # round 8: a meta element that names another media type and no charset (the media-type default is the transport's)
    ('xhtml-nocharset', '<meta http-equiv="Content-Type" content="application/xhtml+xml">', None),
    ('textxml-nocharset', '<meta http-equiv="content-type" content="text/xml">', None),
    ('valueless-attr', '<meta foo><meta http-equiv="Content-Type" content="text/html; charset=koi8-r" bar>', 'koi8-r'),
    ('css-nocharset', '<meta http-equiv="Content-Type" content="text/css; x=y">', None),
]  # fmt: skip
BODIES = ['<html><head>%s</head><body>x</body></html>', '%s']


class Resp:
    def __init__(self, media_type, charset):
        self.m = Message()
        if media_type:
            ct = media_type
            if charset:
                ct += '; charset=' + {'EMPTY': '', 'EMPTYQ': '""'}.get(charset, charset)
            self.m['Content-Type'] = ct
        elif charset:
            self.m['Content-Type'] = 'text/plain; charset=' + {'EMPTY': '', 'EMPTYQ': '""'}.get(charset, charset)

    def info(self):
        return self.m


def same_codec(a, b):
    if a == b:
        return True
    if a is None or b is None:
        return False
    try:
        return codecs.lookup(a).name == codecs.lookup(b).name
    except LookupError:
        return False


NULLLOG = logging.getLogger('verif-encutils-null')
NULLLOG.addHandler(logging.NullHandler())
NULLLOG.propagate = False
# round 8: the caller's log at other levels (what is reported must not depend on who listens); index 0 is the log used so far
LOGS = [NULLLOG]
for _lv in (logging.DEBUG, logging.ERROR, logging.CRITICAL):
    _l = logging.getLogger('verif-encutils-null-%d' % _lv)
    _l.addHandler(logging.NullHandler())
    _l.propagate = False
    _l.setLevel(_lv)
    LOGS.append(_l)


def run_row(ctx, encutils, row, record=True, poison=None, lognum=0):
    media, charset, xmlname, xml, metaname, meta, metacs, body, as_bytes = row
    doc = xml + (body % meta)
    has_response = media is not None
    mt = media
    if media == '':
        mt = 'text/plain'
    if media == '' and charset is None:
        mt = 'text/plain'
    exp = M.decide(mt, None if charset in ('EMPTY', 'EMPTYQ') else charset, doc, metacs, has_response)
    known = exp['known']
    exp_mismatch = any(not same_codec(a, b) for a, b in itertools.combinations(known, 2))
    arg = doc.encode('latin-1') if as_bytes else doc
    resp = Resp(media, charset) if has_response else None
    case = {'kind': 'row', 'media': media, 'charset': charset, 'doc': doc, 'bytes': as_bytes, 'meta_charset': metacs,
            'xml': xmlname, 'meta': metaname, 'body': body, 'lognum': lognum}
    if lognum:
        ctx.count('rows.other-log-level')
    ctx.count('evaluations')
    ctx.count('rows.bytes' if as_bytes else 'rows.text')
    if poison is not None:
        # history: an earlier, unrelated document that ends inside a construct (the answer for this row must not depend on it)
        ctx.count('rows.after-history')
        case['history'] = poison
        try:
            for p in poison:
                encutils.getMetaInfo(p, log=NULLLOG)
                encutils.getEncodingInfo(Resp('text/html', None), p, log=NULLLOG)
                encutils.detectXMLEncoding(p, log=NULLLOG)
        except Exception:
            pass
    try:
        info = encutils.getEncodingInfo(resp, arg, log=LOGS[lognum])
    except Exception as e:
        feats = []
        ctx.violation('table.exception', case, {'tb': core.short_tb(e), 'expected': exp}, features=feats, site=core.raise_site(e))
        return
    got = {'encoding': info.encoding, 'http': info.http_encoding, 'xml': info.xml_encoding, 'meta': info.meta_encoding, 'mismatch': info.mismatch}
    bad = []
    for key in ('encoding', 'http', 'xml', 'meta'):
        g, e = got[key], exp[key]
        if key in ('xml', 'encoding') and xmlname.startswith('bom') and g is not None and e is not None:
            if not same_codec(g, e):
                bad.append(key)
        elif (g or None) != (e or None):  # (an empty name is no encoding)
            bad.append(key)
        if isinstance(g, str) and g != g.lower():
            bad.append(key + ':not-lower-case')
    if bool(got['mismatch']) != exp_mismatch:
        bad.append('mismatch')
    if len(known) >= 1:
        ctx.seen(['row', exp['cls'], bool(exp['http']), xmlname, metaname, exp_mismatch, as_bytes])
    if bad:
        feats = []
        if len(doc) < 4 and exp['cls'] in (M.XMLAPP, M.HTML):
            feats.append('xml-sniffed-doc.shorter-than-4')
        ctx.violation('table', case, {'differs': bad, 'got': got, 'expected': dict(exp, mismatch=exp_mismatch)}, features=feats)


POISON = ['<html><script>var x = "<meta', '<html><style>a{', '<html><!-- open', '<meta http-equiv="Content-Type" content="text/html; charset=koi8-r"', '<a href="', '<![CDATA[ x',
          '<?xml version="1.0" encoding="koi8-r"', '<html><textarea>', '<html><title>t', '<script><!--', '<p class=', '<html><head><meta http-equiv="Content-Type" content="text/html; charset=cp437"><script>']


def rows():
    for media in MEDIA:
        for charset in CHARSETS:
            if media is None and charset:
                continue  # no response object: no transport charset either
            for xmlname, xml in XMLS:
                for metaname, meta, metacs in METAS:
                    for body in BODIES:
                        for as_bytes in (False, True):
                            yield (media, charset, xmlname, xml, metaname, meta, metacs, body, as_bytes)
    # short documents (fewer than 4 characters)
    for media in MEDIA:
        for charset in CHARSETS:
            if media is None and charset:
                continue
            for d in ('', 'a', '<?', 'abc'):
                for as_bytes in (False, True):
                    yield (media, charset, 'short', d, 'none', '', None, '%s', as_bytes)


def sniffers(ctx, encutils, count):
    """detectXMLEncoding on generated/mutated prologs incl. stream position; getMetaInfo; encodingByMediaType"""
    encs = ['utf-8', 'ISO-8859-1', 'koi8-r', 'Shift_JIS', 'x-foo']
    for i in range(count):
        if not ctx.mine(i):
            continue
        rng = ctx.rng('sniff', i)
        q = rng.choice('"\'')
        enc = rng.choice(encs)
        parts = ['<?xml version=%s1.%d%s' % (q, rng.randint(0, 1), q)]
        has_enc = rng.random() < 0.7
        if has_enc:
            parts.append(' encoding=%s%s%s' % (q, enc, q))
        if rng.random() < 0.3:
            parts.append(' standalone=%syes%s' % (q, q))
        tail = rng.choice(['', ' ', ' ', '\n'])
        parts.append(tail + '?>')
        doc = ''.join(parts) + rng.choice(['', '\n<a/>', '<r>\xe4</r>', '<!-- encoding="koi8-r" -->'])
        bomname = None
        r = rng.random()
        if r < 0.15:
            bom, bomname = rng.choice(M.BOMS)
            doc = bom.decode('latin-1') + doc
        elif r < 0.25:
            doc = rng.choice([' ', '\n', 'x']) + doc  # declaration not at the very start: ignored
        elif r < 0.35:
            k = rng.randrange(len(doc))
            doc = doc[:k] + doc[k + 1 :]  # mutation: one character dropped
        if rng.random() < 0.12:
            # no declaration at all (with and without BOM), also longer than what the sniffer reads
            doc = rng.choice(['<a/>', 'plain text', '<html><head></head></html>', 'x' * 3000, '\n\n<r/>'])
            bomname = None
            r = 0.99
            if rng.random() < 0.3:
                bom, bomname = rng.choice(M.BOMS)
                doc = bom.decode('latin-1') + doc
        exp = M.sniff_xml(doc, 'utf-8')
        exp_nodefault = M.sniff_xml(doc, None)
        pos = rng.randint(0, len(doc))
        fp = io.StringIO(doc)
        fp.seek(pos)
        ctx.count('evaluations')
        uselog = NULLLOG if rng.random() < 0.5 else None
        case = {'kind': 'sniff', 'doc': doc, 'pos': pos, 'log': uselog is not None}
        try:
            got = encutils.detectXMLEncoding(fp, log=uselog)
            got2 = encutils.detectXMLEncoding(doc, log=uselog, includeDefault=False)
            # the same two questions the other way round: a string with the default, a stream without it
            fp2 = io.StringIO(doc)
            fp2.seek(pos)
            got3 = encutils.detectXMLEncoding(fp2, log=uselog, includeDefault=False)
            got4 = encutils.detectXMLEncoding(doc, log=uselog)
            if fp2.tell() != pos:
                ctx.violation('sniff.streampos', dict(case, includeDefault=False), {'before': pos, 'after': fp2.tell()})
            if (got3, got4) != (got2, got):
                ctx.violation('sniff.value', dict(case, what='string and stream disagree'), {'stream,default / string,no-default': [got, got2], 'stream,no-default / string,default': [got3, got4]})
        except Exception as e:
            feats = ['doc.shorter-than-4'] if len(doc) < 4 else []
            ctx.violation('sniff.exception', case, {'tb': core.short_tb(e)}, features=feats, site=core.raise_site(e))
            continue
        ctx.count('oracle.streampos')
        if fp.tell() != pos:
            ctx.violation('sniff.streampos', case, {'before': pos, 'after': fp.tell()})
        cmp = same_codec if bomname else (lambda a, b: a == b)
        mutated = 0.25 <= r < 0.35  # a malformed declaration has no prescribed answer: only totality + stream position
        if not mutated and (not cmp(got, exp) or not cmp(got2, exp_nodefault)):
            feats = ['xmldecl.line-break-inside'] if '\n' in doc[: doc.find('?>') + 1] else []
            ctx.violation('sniff.value', case, {'got': [got, got2], 'expected': [exp, exp_nodefault]}, features=feats)
        ctx.seen(['sniff', bool(bomname), has_enc, enc, r < 0.25, r < 0.35])
    # media-type defaults
    for i, mt in ctx.share([m for m in MEDIA if m]):
        ctx.count('evaluations')
        got = encutils.encodingByMediaType(mt)
        exp = M.DEFAULTS[M.classify(mt)]
        if got != exp:
            ctx.violation('mediatype-default', {'kind': 'mediatype', 'media': mt}, {'got': got, 'expected': exp})
    # meta sniffing
    for i, (metaname, meta, metacs) in ctx.share(METAS):
        for body in BODIES:
            ctx.count('evaluations')
            doc = body % meta
            try:
                mt, enc = encutils.getMetaInfo(doc, log=NULLLOG)
            except Exception as e:
                ctx.violation('meta.exception', {'kind': 'meta', 'doc': doc}, {'tb': core.short_tb(e)}, site=core.raise_site(e))
                continue
            if (enc or None) != metacs:  # (an empty charset parameter names no encoding: '' or None)
                ctx.violation('meta.value', {'kind': 'meta', 'doc': doc}, {'got': enc, 'expected': metacs})


def run_worker(ctx):
    _, encutils = core.import_repo()
    n = 0
    for i, row in ctx.share(rows()):
        run_row(ctx, encutils, row)
        if i % 2 == 1:
            run_row(ctx, encutils, row, lognum=1 + (i // 2) % 3)
        if i % 3 == 0:
            rng = ctx.rng('poison', i)
            run_row(ctx, encutils, row, poison=rng.sample(POISON, rng.randint(1, 2)))
        if i % 997 == 0:
            ctx.sample({'row': row[:3] + (row[4], row[8]), 'doc': (row[3] + row[7] % row[5])[:120]})
        n += 1
    sniffers(ctx, encutils, 4000 if ctx.tier == 'quick' else 200000)


def replay(ctx, case):
    _, encutils = core.import_repo()
    kind = case.get('kind')
    if kind == 'row':
        doc = case['doc']
        # re-split is not needed: run_row rebuilds doc from parts, so pass it through as xml part
        row = (case['media'], case['charset'], case.get('xml', 'x'), doc, case.get('meta', 'x'), '', case.get('meta_charset'), '%s', case['bytes'])
        run_row(ctx, encutils, row, poison=case.get('history'), lognum=case.get('lognum', 0))
    elif kind == 'sniff':
        fp = io.StringIO(case['doc'])
        fp.seek(case['pos'])
        try:
            got = encutils.detectXMLEncoding(fp, log=NULLLOG if case.get('log', True) else None)
        except Exception as e:
            ctx.violation('sniff.exception', case, {'tb': core.short_tb(e)}, features=['doc.shorter-than-4'] if len(case['doc']) < 4 else [], site=core.raise_site(e))
            return
        exp = M.sniff_xml(case['doc'], 'utf-8')
        if fp.tell() != case['pos']:
            ctx.violation('sniff.streampos', case, {'after': fp.tell()})
        if not same_codec(got, exp):
            feats = ['xmldecl.line-break-inside'] if '\n' in case['doc'][: case['doc'].find('?>') + 1] else []
            ctx.violation('sniff.value', case, {'got': got, 'expected': exp}, features=feats)
