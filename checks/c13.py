"""C13 - the validation verdict depends only on name, value and profiles; validation only annotates (DESIGN section 6, C13).

Oracles: (1) independent CSS 2.1 grammar (models/css21_values.py) for keyword-list / single-value properties;
(2) metamorphic: the verdict of a (name, value) pair is the same for every spelling, construction path and after a
serialise/reparse round trip, and equals cssutils.profile.validate(name, value); (3) unknown names never valid,
rule/sheet validity is the conjunction; (4) validation on/off leaves the stored and serialised content identical."""

import random
import xml.dom

from engine import core
from models import css21_values as V

PROPERTY = 'C13'
LEVEL = 'exploration'
LEVEL_TEXT = (
    'Every known property name x values drawn from its own CSS 2.1 grammar, from other grammars and nonsense near misses x 6 spellings '
    '(keyword/unit/function case, white space, comments) x 4 construction paths (parsed, Property(), setProperty, item assignment) x round trip; '
    'the verdicts must agree with each other, with profile.validate and - for the ~65 properties with a simple CSS 2.1 grammar - with an '
    'independently transcribed grammar. Conjunction upwards and validate on/off identity are checked on generated sheets.'
)
LEVEL_NOTE = 'trusted: models/css21_values.py (syntactic CSS 2.1 grammars from the property index); prose range restrictions are not asserted'
TECHNIQUE = 'runtime monitoring: independent grammar oracle + metamorphic verdict invariance over spellings, construction paths and round trips'
DESIGN_REF = 'DESIGN.md section 6, C13'
RULE = (
    'pairs (property, value): simple-grammar properties x {own keywords, own typed samples, nonsense}; all known properties x a pooled value '
    'list; each in up to 6 spellings; distinct_nontrivial = distinct (property, value class, spelling kind) triples judged'
)
ASSUMPTIONS = [
    'negative samples are only used where CSS 2.1 allows negative values',
    'values outside the CSS 2.1 grammar are asserted invalid only when no CSS level could accept them (nonsense, wrong token kinds)',
    'default profiles are unrestricted',
]
MIN_EVENTS = {'quick': {'oracle.profile-switch': 12000, 'oracle.fontface-conjunction': 2200, 'oracle.grammar': 1100, 'oracle.metamorphic': 18000, 'oracle.paths': 4000, 'oracle.conjunction': 500, 'oracle.validate-onoff': 500, 'oracle.list-values': 350, 'oracle.no-comments-parser': 2500},
              'thorough': {'oracle.profile-switch': 250000, 'oracle.fontface-conjunction': 45000, 'oracle.grammar': 1100, 'oracle.metamorphic': 250000, 'oracle.paths': 55000, 'oracle.conjunction': 12000, 'oracle.validate-onoff': 12000, 'oracle.list-values': 7000, 'oracle.no-comments-parser': 40000}}

NEGATIVE_OK = {'margin-top', 'margin-right', 'margin-bottom', 'margin-left', 'top', 'right', 'bottom', 'left', 'z-index', 'text-indent',
               'letter-spacing', 'word-spacing', 'vertical-align'}  # fmt: skip
POOL = ['red', 'RED', '#abc', 'rgb(1, 2, 3)', 'rgba(1, 2, 3, 0.5)', 'hsl(120, 50%, 50%)', '1px', '0', '10%', '1.5', '1', '2em', 'auto', 'none', 'inherit', 'normal',
        'bold', 'italic', 'solid', '1px solid red', 'url(a.png)', '"Times New Roman", serif', 'serif', 'x-large', 'block', 'left', 'center', 'top', 'thin',
        '1px 2px', '1px 2px 3px 4px', 'red blue', '12px/1.5 serif', 'italic bold 12px serif', 'counter(c, disc)', 'attr(title)', 'zqx', '10deg', '2s',
        'repeat-x', 'fixed', 'scroll', 'transparent', 'invert', 'underline overline', 'uppercase', 'nowrap', 'hidden', 'visible', 'both', 'inside',
        'collapse', 'always', 'avoid', '400', 'medium', 'center top', '50% 50%', 'open-quote', '"a" "b"', 'decimal', 'square', 'ltr', 'embed', 'pointer',
        'inline-block', 'table-cell', 'absolute', 'baseline', 'sub', 'small-caps', 'larger',
        # numbers a hair away from an integer, many fractional digits, exponent-free small values
        '1.0000001', '0.9999999', '2.0000002px', '49.9999999%', '-0.9999999em', '100.0000001%', '1.5000000', '0.50', '.5em', '+1.0px', '3.14159265']  # fmt: skip


def tokens_of(value):
    """split a value text into tokens and separators without touching strings, urls and functions"""
    out = []
    i = 0
    n = len(value)
    cur = ''
    depth = 0
    quote = None
    while i < n:
        ch = value[i]
        if quote:
            cur += ch
            if ch == quote:
                quote = None
        elif ch in '"\'':
            quote = ch
            cur += ch
        elif ch == '(':
            depth += 1
            cur += ch
        elif ch == ')':
            depth -= 1
            cur += ch
        elif depth == 0 and ch in ' ,/':
            if cur:
                out.append(cur)
                cur = ''
            out.append(ch)
        else:
            cur += ch
        i += 1
    if cur:
        out.append(cur)
    return out


def spell(value, kind, rng):
    toks = tokens_of(value)
    out = []
    for t in toks:
        if t == ' ':
            if kind == 'ws':
                out.append(rng.choice(['  ', '\n', '\t ', ' \r\n ']))
            elif kind == 'comments':
                out.append(rng.choice([' /**/ ', ' /*c*/', '/*c*/ ']))
            else:
                out.append(' ')
        elif t in ',/':
            if kind == 'ws':
                out.append(rng.choice([t, ' ' + t + ' ', t + ' ']))
            elif kind == 'comments':
                out.append(rng.choice([t, '/*c*/' + t, t + '/*c*/ ', ' /*c*/ ' + t, ' /**/ ' + t + ' ']))
            else:
                out.append(t)
        else:
            if kind == 'upper' and not t.startswith(('"', "'", 'url(', 'attr(', 'counter(')):
                out.append(t.upper())
            elif kind == 'mixed' and not t.startswith(('"', "'", 'url(', 'attr(', 'counter(')):
                out.append(''.join(c.upper() if rng.random() < 0.5 else c for c in t))
            elif kind == 'comments-inside' and '(' in t and t.endswith(')') and not t.lower().startswith(('url(', 'attr(', 'counter(', '"', "'")):
                # comments inside a function: after "(", after a "," and before ")"
                head, rest = t.split('(', 1)
                inner = rest[:-1]
                if '"' in inner or "'" in inner or '(' in inner:
                    out.append(t)
                else:
                    parts = [x for x in inner.split(',')]
                    where = rng.randrange(3)
                    if where == 0:
                        parts[0] = '/*c*/' + parts[0]
                    elif where == 1:
                        parts[-1] = parts[-1] + '/*c*/'
                    else:
                        k = rng.randrange(len(parts))
                        parts[k] = parts[k] + ' /**/'
                    out.append(head + '(' + ','.join(parts) + ')')
            else:
                out.append(t)
    text = ''.join(out)
    if kind == 'ws':
        text = rng.choice(['', ' ', '\n']) + text + rng.choice(['', ' ', '\n'])
    elif kind == 'comments' and rng.random() < 0.5:
        text = '/*c*/' + text
    return text


SPELLINGS = ['plain', 'upper', 'mixed', 'ws', 'comments', 'comments-inside', 'name-upper', 'name-escape', 'name-hex']


def spell_name(name, kind, rng):
    """the property name in another spelling CSS allows: letter case, a backslash before a letter that is no hex digit, a hex escape"""
    if kind == 'name-upper':
        return ''.join(c.upper() if rng.random() < 0.6 else c for c in name)
    idx = [i for i, ch in enumerate(name) if ch.isalpha() and (kind == 'name-hex' or ch not in 'abcdefABCDEF')]
    if not idx:
        return name
    i = rng.choice(idx)
    if kind == 'name-escape':
        return name[:i] + '\\' + name[i:]
    return name[:i] + '\\%x ' % ord(name[i]) + name[i + 1:]


def verdict_parsed(cssutils, name, text, context='style'):
    if context == 'fontface':
        sheet = cssutils.parseString('@font-face{%s:%s}' % (name, text))
    else:
        sheet = cssutils.parseString('zz{%s:%s}' % (name, text))
    if not len(sheet.cssRules):
        return None, None
    props = sheet.cssRules[0].style.getProperties(all=True)
    if not props:
        return None, sheet
    return props[0].valid, sheet


def judge_pair(ctx, cssutils, name, value, rng, vclass, expect=None, context='style'):
    """all spellings/paths of one (name, value) pair must give one verdict (== expect when the grammar oracle knows it)"""
    css = cssutils.css
    base_case = {'kind': 'pair', 'name': name, 'value': value, 'context': context}
    feats = []
    if vclass.endswith('+'):
        feats.append('value.unary-plus-or-signed-zero')
    if vclass == 'color' and value.lower() in ('buttonface',):
        feats.append('value.css2-system-color')
    if name in ('min-width', 'min-height') and value.lower() == 'none':
        feats.append('min-size.none')
    try:
        core.canonical_state(cssutils)
        ref = cssutils.profile.validate(name, value) if context == 'style' else None
    except Exception as e:
        ctx.violation('exception', base_case, {'tb': core.short_tb(e)}, features=feats, site=core.raise_site(e))
        return
    if expect is not None and context == 'style':
        ctx.count('oracle.grammar')
        ctx.count('evaluations')
        if bool(ref) != expect:
            ctx.violation('grammar', base_case, {'profile.validate': ref, 'css21_grammar': expect, 'value_class': vclass}, features=feats)
    verdicts = {}
    import re

    deep = bool(re.search(r'\.\d{7,}', value))
    if name in ('box-shadow', 'text-shadow') and re.fullmatch(r'\.\d+[a-z%]*', value):
        feats.append('shadow.single-length-without-leading-zero')
    for kind in SPELLINGS:
        pname = name
        if kind.startswith('name-'):
            pname, text = spell_name(name, kind, rng), value
            if pname == name:
                continue
        else:
            text = spell(value, kind, rng)
            if kind != 'plain' and text == value:
                continue
        ctx.count('oracle.metamorphic')
        ctx.count('evaluations')
        f2 = list(feats)
        if kind == 'comments' and '(' in value:
            f2.append('value.comment-inside-function') if '/*' in text[text.find('(') : text.rfind(')') + 1] else None
        try:
            core.canonical_state(cssutils)
            v, sheet = verdict_parsed(cssutils, pname, text, context)
            if v is None:
                verdicts[kind] = 'DROPPED'
                continue
            verdicts[kind] = bool(v)
            if '/*' in text and context == 'style':
                # the same text read by a parser that drops comments while tokenizing
                ctx.count('oracle.no-comments-parser')
                nc = cssutils.CSSParser(parseComments=False).parseString('zz{%s:%s}' % (pname, text))
                pr = nc.cssRules[0].style.getProperties(all=True) if len(nc.cssRules) else []
                verdicts[kind + '+parser-without-comments'] = bool(pr[0].valid) if pr else 'DROPPED'
            if deep:
                continue  # (the serializer writes six fractional digits - C18 states that limit -: the value read back is another one)
            # round trip
            sheet2 = cssutils.parseString(sheet.cssText)
            p2 = sheet2.cssRules[0].style.getProperties(all=True) if len(sheet2.cssRules) else []
            if not p2:
                verdicts[kind + '+roundtrip'] = 'DROPPED'
            else:
                verdicts[kind + '+roundtrip'] = bool(p2[0].valid)
        except Exception as e:
            ctx.violation('exception', dict(base_case, spelling=kind, text=text), {'tb': core.short_tb(e)}, features=f2, site=core.raise_site(e))
            return
        ctx.seen(['M', name, vclass, kind, context])
    if context == 'style':
        ctx.count('oracle.paths')
        try:
            core.canonical_state(cssutils)
            p = css.Property(name, value)
            verdicts['Property()'] = bool(p.valid)
            for nk in ('name-upper', 'name-escape'):
                nm = spell_name(name, nk, rng)
                verdicts['Property(%s)' % nk] = bool(css.Property(nm, value).valid)
            st = css.CSSStyleDeclaration()
            st.setProperty(name, value)
            verdicts['setProperty'] = bool(st.getProperties(all=True)[0].valid)
            # ... and what was refused elsewhere just before says nothing about this declaration
            which = rng.randrange(4)
            try:
                if which == 0:
                    cssutils.stylesheets.MediaList().appendMedium('print, tv')
                elif which == 1:
                    cssutils.stylesheets.MediaQuery(rng.choice(['print, tv', 'tv $', 'print and']))
                elif which == 2:
                    cssutils.stylesheets.MediaList('tv')[0] = 'print tv'
                else:
                    css.Selector('a,, b')
            except xml.dom.DOMException:
                pass
            try:
                verdicts['Property() after refused edits elsewhere'] = bool(css.Property(name, value).valid)
            except xml.dom.DOMException:
                verdicts['Property() after refused edits elsewhere'] = 'REFUSED'
            st2 = css.CSSStyleDeclaration()
            st2[name] = value
            verdicts['setitem'] = bool(st2.getProperties(all=True)[0].valid)
            # a declaration that said something else and was changed through the interface of its value object (validated before and after)
            single = [t for t in tokens_of(value) if t.strip()]
            if len(single) == 1 and not value.lstrip().startswith(('"', "'")):
                for first in ('10', 'red', 'zqx'):
                    if first == value:
                        continue
                    sh = cssutils.parseString('zz{%s:%s}' % (name, first))
                    pr = sh.cssRules[0].style.getProperties(all=True)
                    if not pr or not len(pr[0].propertyValue):
                        continue
                    before = pr[0].valid
                    try:
                        pr[0].propertyValue[0].cssText = value
                    except Exception:
                        continue  # (the value object refuses texts of another kind: nothing changed)
                    if pr[0].propertyValue.cssText.replace(' ', '') != css.PropertyValue(value).cssText.replace(' ', ''):
                        continue
                    verdicts['changed through Value.cssText (was %s, valid=%s)' % (first, before)] = bool(pr[0].valid)
                    verdicts['... and its rule'] = bool(sh.cssRules[0].valid) if hasattr(sh.cssRules[0], 'valid') else bool(pr[0].valid)
                    break
            # a Property object that lived in an @font-face block, handed to an ordinary block
            ff = css.CSSFontFaceRule()
            ff.style.setProperty(name, value)
            moved = ff.style.getProperties(all=True)[0]
            st3 = css.CSSStyleRule(selectorText='a').style
            st3.setProperty(moved)
            verdicts['setProperty(Property from @font-face)'] = bool(st3.getProperties(all=True)[0].valid)
        except Exception as e:
            verdicts['paths'] = 'EXC ' + type(e).__name__
        if ref is not None:
            verdicts['profile.validate'] = bool(ref)
    else:
        ctx.count('oracle.paths')
        try:
            core.canonical_state(cssutils)
            ff = css.CSSFontFaceRule()
            ff.style.setProperty(css.Property(name, value))
            verdicts['setProperty(free Property) into @font-face'] = bool(ff.style.getProperties(all=True)[0].valid)
            ff2 = css.CSSFontFaceRule()
            src = css.CSSStyleRule(selectorText='a').style
            src.setProperty(name, value)
            ff2.style.setProperty(src.getProperties(all=True)[0])
            verdicts['setProperty(Property from style rule) into @font-face'] = bool(ff2.style.getProperties(all=True)[0].valid)
        except Exception as e:
            verdicts['paths'] = 'EXC ' + type(e).__name__
    # a declaration the parser drops, or a DOM call rejected with SyntaxErr, is 'not valid' like a False verdict
    vals = {True if v is True else False for v in verdicts.values()}
    if len(vals) > 1:
        ctx.violation('metamorphic', base_case, {'verdicts': verdicts}, features=feats + (['value.comment-inside-function'] if any('comment' in k for k, v in verdicts.items() if v != verdicts.get('plain')) and '(' in value else []))


def grammar_stream(ctx, cssutils):
    names = sorted(V.T)
    for i, name in ctx.share(names):
        kws, types = V.T[name]
        rng = ctx.rng('g', i)
        for kw in kws + ['inherit']:
            judge_pair(ctx, cssutils, name, kw, rng, 'keyword', True)
        for t in types:
            for v in V.SAMPLES[t]:
                if v.startswith('-') and name not in NEGATIVE_OK:
                    continue
                judge_pair(ctx, cssutils, name, v, rng, t, True)
            for v in V.SAMPLES.get(t + '+', []):
                if v.startswith('-') and name not in NEGATIVE_OK:
                    continue
                judge_pair(ctx, cssutils, name, v, rng, t + '+', True)
        for v in V.NONSENSE:
            judge_pair(ctx, cssutils, name, v, rng, 'nonsense', False)
        # values of a token kind the grammar does not contain
        if not types:
            for v in ('10px', '50%', '#abc', 'url(x)', '"s"'):
                judge_pair(ctx, cssutils, name, v, rng, 'foreign-type', False)
        if 'length' in types and 'number' not in types and 'integer' not in types:
            judge_pair(ctx, cssutils, name, '10', rng, 'missing-unit', False)
            judge_pair(ctx, cssutils, name, '10deg', rng, 'wrong-unit', False)
        if name in ('min-width', 'min-height'):
            judge_pair(ctx, cssutils, name, 'none', rng, 'keyword-of-max', False)


def metamorphic_stream(ctx, cssutils, count):
    names = sorted(set(cssutils.profile.knownNames))
    for i in range(count):
        if not ctx.mine(i):
            continue
        rng = ctx.rng('m', i)
        name = rng.choice(names)
        value = rng.choice(POOL)
        ctxname = 'fontface' if rng.random() < 0.15 else 'style'
        judge_pair(ctx, cssutils, name, value, rng, 'pool', None, ctxname)
    # unknown names are never valid
    for i in range(60):
        if not ctx.mine(i):
            continue
        rng = ctx.rng('u', i)
        nm = rng.choice(['zq-unknown', 'colour', 'x-foo', 'margin-middle', '-moz-zz', 'widht'])
        val = rng.choice(POOL)
        ctx.count('evaluations')
        try:
            core.canonical_state(cssutils)
            v, sheet = verdict_parsed(cssutils, nm, val)
            if v or cssutils.profile.validate(nm, val):
                ctx.violation('unknown-name-valid', {'kind': 'pair', 'name': nm, 'value': val}, {'Property.valid': v})
        except Exception as e:
            ctx.violation('exception', {'kind': 'pair', 'name': nm, 'value': val}, {'tb': core.short_tb(e)}, site=core.raise_site(e))


LIST_PAIRS = [('font-family', 'x, y'), ('font-family', '"a b", c, serif'), ('font', '12px/14px serif'), ('font', 'bold 1em/1.2 x, y'), ('color', 'red, blue'),
              ('font-family', 'x y, z'), ('font', '12px / 14px a, b'), ('voice-family', 'x, female'), ('cursor', 'url(a.cur), pointer'), ('width', '1px/2px'),
              ('background-position', '0, 0'), ('font-family', 'a, b, c, d')]  # fmt: skip


def list_stream(ctx, cssutils, reps):
    """values that are lists (comma, slash): every placement of white space and comments around the separators"""
    for i in range(reps * len(LIST_PAIRS)):
        if not ctx.mine(i):
            continue
        name, value = LIST_PAIRS[i % len(LIST_PAIRS)]
        ctx.count('oracle.list-values')
        judge_pair(ctx, cssutils, name, value, ctx.rng('l', i), 'list', None, 'style')


def sheets_stream(ctx, cssutils, count):
    """conjunction upwards and validate on/off identity on generated sheets"""
    from gen import sheets as G

    for i in range(count):
        if not ctx.mine(i):
            continue
        rng = ctx.rng('s', i)
        g = G.Gen(rng, namespaces=False, max_stmts=4)
        stmts = g.sheet()
        text = G.render(stmts, G.NEUTRAL_STYLE, ctx.rng('sr', i))
        case = {'kind': 'sheet', 'text': text}
        try:
            core.canonical_state(cssutils)
            s_on = cssutils.CSSParser(validate=True).parseString(text)
            s_off = cssutils.CSSParser(validate=False).parseString(text)
            ctx.count('oracle.validate-onoff')
            ctx.count('evaluations')
            if s_on.cssText != s_off.cssText:
                ctx.violation('validate-onoff.content', case, {'on': s_on.cssText.decode()[:300], 'off': s_off.cssText.decode()[:300]})
            # declaration level
            for r in s_on.cssRules:
                if r.type == r.STYLE_RULE:
                    a = cssutils.css.CSSStyleDeclaration(cssText=r.style.cssText, validating=True).cssText
                    b = cssutils.css.CSSStyleDeclaration(cssText=r.style.cssText, validating=False).cssText
                    if a != b:
                        ctx.violation('validate-onoff.content', case, {'level': 'declaration', 'on': a, 'off': b})
                    break
            # conjunction (blocks without duplicate names)
            ctx.count('oracle.conjunction')
            allvalid = True
            comparable = True
            for r in s_on.cssRules:
                if r.type == r.STYLE_RULE:
                    props = r.style.getProperties(all=True)
                    names = [p.name for p in props]
                    if len(names) != len(set(names)):
                        comparable = False
                        break
                    conj = all(p.valid for p in props)
                    if bool(r.style.valid) != conj or bool(r.valid) != conj:
                        ctx.violation('conjunction', case, {'rule': r.cssText[:200], 'style.valid': r.style.valid, 'rule.valid': r.valid, 'all(properties)': conj})
                        comparable = False
                        break
                    allvalid = allvalid and conj
                elif r.type in (r.MEDIA_RULE, r.PAGE_RULE, r.FONT_FACE_RULE):
                    comparable = False  # nested validity rules are not spelled out by the property: sheet level compared for flat sheets only
            if comparable and bool(s_on.valid) != allvalid:
                ctx.violation('conjunction', case, {'sheet.valid': s_on.valid, 'all(rules)': allvalid})
            ctx.seen(['S', core.h8(text)])
        except Exception as e:
            ctx.violation('exception', case, {'tb': core.short_tb(e)}, site=core.raise_site(e))


FF_DECLS = ['font-family:f', 'font-family:"a b"', 'src:url(x.woff)', 'src:url(x.eot) format(eot)', 'src:local(x), url(y.ttf) format("truetype")', 'src:zqx zqx', 'font-weight:bold', 'font-weight:bolder',
            'font-style:italic', 'font-style:inherit', 'font-stretch:condensed', 'font-stretch:wider', 'unicode-range:U+0-7F', 'unicode-range:zqx', 'font-variant:small-caps', 'color:red']


def fontface_stream(ctx, cssutils, count):
    """an @font-face rule is valid iff all its declarations are (every one, also a repeated descriptor that a later one overrides)
    and the required descriptors font-family and src are there"""
    for i in range(count):
        if not ctx.mine(i):
            continue
        rng = ctx.rng('ff', i)
        decls = [rng.choice(FF_DECLS) for _ in range(rng.randint(1, 6))]
        text = '@font-face{%s}' % ';'.join(decls)
        case = {'kind': 'fontface', 'text': text}
        ctx.count('oracle.fontface-conjunction')
        ctx.count('evaluations')
        try:
            core.canonical_state(cssutils, raising=False)
            sheet = cssutils.parseString(text)
            core.canonical_state(cssutils)
            if not len(sheet.cssRules):
                continue
            r = sheet.cssRules[0]
            props = r.style.getProperties(all=True)
            names = {p.name for p in props}
            want = all(p.valid for p in props) and {'font-family', 'src'} <= names
            if bool(r.valid) != want or bool(sheet.valid) != want:
                ctx.violation('conjunction', case, {'rule.valid': r.valid, 'sheet.valid': sheet.valid, 'declarations': [[p.name, p.value, bool(p.valid)] for p in props], 'expected': want})
            ctx.seen(['ff', tuple(sorted(names)), want])
        except Exception as e:
            ctx.violation('exception', case, {'tb': core.short_tb(e)}, site=core.raise_site(e))


SWITCH_PAIRS = [('opacity', '0.5'), ('text-shadow', 'none'), ('resize', 'both'), ('box-sizing', 'border-box'), ('overflow-x', 'hidden'), ('color', 'rgba(1,2,3,0.5)'), ('color', 'red'),
                ('width', '1px'), ('width', 'zqx'), ('cursor', 'zoom-in'), ('outline-offset', '2px'), ('border-radius', '1px'), ('font-stretch', 'wider'), ('size', 'a4'), ('src', 'url(a)'),
                ('text-overflow', 'ellipsis'), ('word-wrap', 'break-word'), ('nosuch', '1')]  # fmt: skip


def profile_switch_stream(ctx, cssutils, count):
    """the verdict depends only on (name, value, active profiles): after any sequence of switches of the default profiles and of
    validations under other settings, the verdict equals the one of a brand-new registry given the same setting"""
    P = cssutils.profiles.Profiles
    settings = [None, P.CSS_LEVEL_2, [P.CSS_LEVEL_2, P.CSS3_COLOR], [P.CSS3_BASIC_USER_INTERFACE], [P.CSS_LEVEL_2, P.CSS3_BOX, P.CSS3_TEXT], P.CSS3_FONT_FACE]
    reg = cssutils.profile
    for i in range(count):
        if not ctx.mine(i):
            continue
        rng = ctx.rng('switch', i)
        hist = []
        try:
            for step in range(rng.randint(3, 10)):
                setting = rng.choice(settings)
                reg.defaultProfiles = setting
                pairs = rng.sample(SWITCH_PAIRS, rng.randint(1, 4))
                hist.append([setting, pairs])
                fresh = P(log=cssutils.log)
                fresh.defaultProfiles = setting
                for n, v in pairs:
                    ctx.count('oracle.profile-switch')
                    ctx.count('evaluations')
                    got = [list(reg.validateWithProfile(n, v)), reg.validate(n, v), cssutils.css.Property(n, v).valid]
                    want_vwp = list(fresh.validateWithProfile(n, v))
                    # Property.valid = valid and matching the active profiles
                    want = [want_vwp, fresh.validate(n, v), bool(want_vwp[0] and want_vwp[1])]
                    if got != want:
                        ctx.violation('profile-switch', {'kind': 'switch', 'history': hist}, {'pair': [n, v], 'setting': setting, 'got': got, 'fresh_registry': want})
                        raise StopIteration
                    ctx.seen(['switch', str(setting)[:30], n, str(got[2])])
        except StopIteration:
            pass
        finally:
            reg.defaultProfiles = None


def run_worker(ctx):
    cssutils, _ = core.import_repo()
    quick = ctx.tier == 'quick'
    profile_switch_stream(ctx, cssutils, 1200 if quick else 25000)
    fontface_stream(ctx, cssutils, 3000 if quick else 60000)
    grammar_stream(ctx, cssutils)
    metamorphic_stream(ctx, cssutils, 4500 if quick else 70000)
    list_stream(ctx, cssutils, 40 if quick else 800)
    sheets_stream(ctx, cssutils, 700 if quick else 15000)
    ctx.sample({'example': {'name': 'margin-top', 'value': '1px', 'spellings': [spell('1px solid red', k, random.Random(1)) for k in SPELLINGS]}})


def replay(ctx, case):
    cssutils, _ = core.import_repo()
    if case.get('kind') == 'pair':
        name, value = case['name'], case['value']
        expect = case.get('expect')
        judge_pair(ctx, cssutils, name, value, random.Random(0), case.get('vclass', 'pool'), expect, case.get('context', 'style'))
    elif case.get('kind') == 'fontface':
        core.canonical_state(cssutils, raising=False)
        sheet = cssutils.parseString(case['text'])
        core.canonical_state(cssutils)
        r = sheet.cssRules[0]
        props = r.style.getProperties(all=True)
        want = all(p.valid for p in props) and {'font-family', 'src'} <= {p.name for p in props}
        if bool(r.valid) != want:
            ctx.violation('conjunction', case, {'rule.valid': r.valid, 'expected': want})
    elif case.get('kind') == 'switch':
        P = cssutils.profiles.Profiles
        reg = cssutils.profile
        try:
            for setting, pairs in case['history']:
                reg.defaultProfiles = setting
                fresh = P(log=cssutils.log)
                fresh.defaultProfiles = setting
                for n, v in pairs:
                    got = [list(reg.validateWithProfile(n, v)), reg.validate(n, v), cssutils.css.Property(n, v).valid]
                    w = list(fresh.validateWithProfile(n, v))
                    want = [w, fresh.validate(n, v), bool(w[0] and w[1])]
                    if got != want:
                        ctx.violation('profile-switch', case, {'pair': [n, v], 'setting': setting, 'got': got, 'fresh_registry': want})
                        return
        finally:
            reg.defaultProfiles = None
    elif case.get('kind') == 'sheet':
        s_on = cssutils.CSSParser(validate=True).parseString(case['text'])
        s_off = cssutils.CSSParser(validate=False).parseString(case['text'])
        if s_on.cssText != s_off.cssText:
            ctx.violation('validate-onoff.content', case, {})
