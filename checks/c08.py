"""C08 - sheet/import encoding precedence; serialised bytes decodable and lossless (DESIGN section 6, C08).

Two monitors.

 precedence   a virtual file system serves import chains of depth <= 3; for every combination of (explicit override or not, transport
              charset or not, BOM / @charset / nothing in the content, bytes or text delivery, fetcher answering data / None / (None, None))
              per level - over eight single-byte encodings that decode the same probe bytes to eight different strings - the encoding each
              sheet reports and the characters it actually decoded are compared with the ladder of the property statement
              (override > transport > BOM/@charset > referring sheet > UTF-8; an override governs every nested import).
 lossless     sheets whose identifiers, strings, URLs and property values hold characters from many scripts are given every target encoding
              through sheet.encoding; the serialisation must be bytes decodable in sheet.encoding (= its @charset rule, UTF-8 if none) and
              must reparse to the same DOM projection; nothing may raise."""

import codecs
import itertools
import os
import tempfile

from engine import core
from models import projection

PROPERTY = 'C08'
LEVEL = 'exploration'
LEVEL_TEXT = (
    'Precedence: the full table of per-level configurations for depth-1 chains and a random sample for depth 2-3 (quick 30k chains, thorough 400k), '
    'through parseString(bytes/str), parseUrl and parseFile; lossless: quick 20k / thorough 300k random sheets x target encodings with '
    'characters drawn from 14 blocks incl. astral planes in identifier, string, url and value positions.'
)
LEVEL_NOTE = 'trusted: the ladder model in this file (from the property statement and CSS 2.1 4.4) and models/projection.py'
TECHNIQUE = 'runtime monitoring: reference model of the encoding ladder compared with recorded fetches and decoded probes; round-trip oracle on serialised bytes'
DESIGN_REF = 'DESIGN.md section 6, C08'
RULE = 'configurations x inputs; distinct_nontrivial = distinct per-level configuration tuples (precedence) and distinct (target encoding, character block, position) triples (lossless)'
EXHAUSTIVE = {'quick': False, 'thorough': False}
EXHAUSTIVE_NOTE = 'the depth-1 configuration table (api x override x transport x declaration x delivery x fetch answer) is enumerated completely in both tiers'
ASSUMPTIONS = [
    'a UTF-8 BOM may be reported as utf-8 or utf-8-sig',
    'encoding names are compared after codecs.lookup() normalisation',
    'a top-level byte document with a UTF-16 BOM and no @charset rule given to parseString/parseFile is decoded by the BOM but reports UTF-8 (it has no @charset rule) and passes UTF-8 on to imports without information of their own; imported sheets and parseUrl record the BOM encoding as @charset rule',
    'comments are excluded from the lossless comparison when they hold characters the target encoding cannot represent (escapes are not interpreted inside comments; recorded as KF-C08 if observed)',
]
MIN_EVENTS = {
    'quick': {'oracle.conflict': 90, 'oracle.precedence': 19000, 'levels.checked': 38000, 'oracle.lossless': 15000, 'escapes.needed': 8000, 'table.depth1-rows': 1500},
    'thorough': {'oracle.conflict': 900, 'oracle.precedence': 230000, 'levels.checked': 450000, 'oracle.lossless': 240000, 'escapes.needed': 120000, 'table.depth1-rows': 1500},
}

ENCS = ['iso-8859-1', 'koi8-r', 'iso-8859-5', 'iso-8859-7', 'cp437', 'cp1251', 'mac-roman', 'iso-8859-2']
PROBE = 'äöü'.encode('utf-8')  # valid UTF-8, and eight different strings in the eight encodings above
assert len({PROBE.decode(e) for e in ENCS + ['utf-8']}) == len(ENCS) + 1


def norm(enc):
    if enc is None:
        return None
    try:
        n = codecs.lookup(enc).name
    except LookupError:
        return enc.lower()
    return 'utf-8' if n == 'utf-8-sig' else n


# ------------------------------------------------------------------------------------------------------------ precedence
WIDE = {'bom16': 'utf-16', 'bom32': 'utf-32', 'bom16be': 'utf-16', 'bom32be': 'utf-32'}
BIG_ENDIAN = {'bom16be': (codecs.BOM_UTF16_BE, 'utf-16-be'), 'bom32be': (codecs.BOM_UTF32_BE, 'utf-32-be')}


def wire_wide(cfg, parent_enc, override=None):
    """the wide (UTF-16/32) encoding the bytes of this level are written in, or None: declared by its own BOM, or - without any
    information of its own - inherited from a referring sheet that is in such an encoding"""
    http, decl, delivery, answer = cfg
    if delivery != 'bytes':
        return None
    if decl in WIDE:
        return WIDE[decl]
    if not override and not http and not decl and norm(parent_enc) in ('utf-16', 'utf-32'):
        return norm(parent_enc) + '-le'
    return None


def level_content(i, cfg, last, parent_enc=None, override=None):
    """bytes or str served for level i (1-based); cfg = (http, decl, delivery, answer)"""
    http, decl, delivery, answer = cfg
    head = ''
    if decl and decl.startswith('charset:'):
        head = '@charset "%s";' % decl[8:]
    body = head + ('' if last else '@import "L%d.css";' % (i + 1))
    if delivery == 'text':
        text = body + 'p%d{content:"T%däЖ"}' % (i, i)
        return ('﻿' + text) if decl == 'bom' else text
    wide = wire_wide(cfg, parent_enc, override)
    if wide:
        text = body + 'p%d{content:"W%däЖ"}' % (i, i)
        if decl in BIG_ENDIAN:
            # the other byte order: the BOM says so, the encoding is still called UTF-16 / UTF-32
            return BIG_ENDIAN[decl][0] + text.encode(BIG_ENDIAN[decl][1])
        # (the utf-16/utf-32 codecs write the BOM themselves, the -le ones do not)
        return text.encode(wide)
    raw = body.encode('ascii') + b'p%d{content:"' % i + PROBE + b'"}'
    return (codecs.BOM_UTF8 + raw) if decl == 'bom' else raw


def model_encoding(override, cfg, parent_enc):
    http, decl, delivery, answer = cfg
    if override:
        return override
    if http:
        return http
    if decl == 'bom':
        return 'utf-8'
    if decl in WIDE:
        return WIDE[decl]
    if decl and decl.startswith('charset:'):
        return decl[8:]
    if parent_enc:
        return parent_enc
    return 'utf-8'


def expected_probe(i, cfg, enc, parent_enc=None, override=None):
    if cfg[2] == 'text':
        return 'T%däЖ' % i
    if wire_wide(cfg, parent_enc, override):
        return 'W%däЖ' % i
    return PROBE.decode(enc)


def run_chain(ctx, c, api, override, top, levels, case):
    """top = (decl, delivery) of the top sheet (level 0); levels = [cfg,...] for L1..Ln"""
    vfs = {}
    for i, cfg in enumerate(levels, 1):
        vfs['http://h/L%d.css' % i] = cfg
    # an @import added to the finished sheet later on (after its encoding was set anew): served with or without a charset of its own
    late_cfg = (None, [None, 'charset:mac-roman', None, 'bom'][(len(levels) + (1 if override else 0) + (2 if top[0] else 0)) % 4], 'bytes', 'data')
    late_parent = [None]
    asked = []
    # the encoding of the referring sheet, by the model (decides how a level without information of its own is written)
    parents = {}
    p_enc = model_encoding(override, (top[2] if api == 'parseUrl' else None, top[0], top[1], 'data'), None)
    if top[0] in WIDE and api != 'parseUrl' and not override:
        p_enc = 'utf-8'  # see below: what the top sheet reports
    for i, cfg in enumerate(levels, 1):
        parents[i] = p_enc
        p_enc = model_encoding(override, cfg, p_enc)

    def fetcher(url):
        asked.append(url)
        if url == 'http://h/top.css':
            cfg = (top[2], top[0], top[1], 'data')
            return cfg[0], level_content(0, cfg, last=not levels)
        if url == 'http://h/late.css':
            return late_cfg[0], level_content(9, late_cfg, last=True, parent_enc=late_parent[0], override=None)
        cfg = vfs.get(url)
        if cfg is None:
            return None
        if cfg[3] == 'none':
            return None
        if cfg[3] == 'nonepair':
            return (None, None)
        i = int(url.rsplit('L', 1)[1].split('.')[0])
        return cfg[0], level_content(i, cfg, last=(i == len(levels)), parent_enc=parents[i], override=override)

    core.canonical_state(c, raising=False)
    parser = c.CSSParser(fetcher=fetcher)
    top_cfg = (top[2] if api == 'parseUrl' else None, top[0], top[1], 'data')
    content = level_content(0, top_cfg, last=not levels)
    tmp = None
    try:
        if api == 'parseUrl':
            sheet = parser.parseUrl('http://h/top.css', encoding=override)
        elif api == 'parseFile':
            fd, tmp = tempfile.mkstemp(suffix='.css', dir=os.environ.get('VERIF_TMP') or None)
            with os.fdopen(fd, 'wb') as f:
                f.write(content if isinstance(content, bytes) else content.encode('utf-8'))
            sheet = parser.parseFile(tmp, encoding=override, href='http://h/top.css')
        else:
            sheet = parser.parseString(content, encoding=override, href='http://h/top.css')
    except Exception as e:
        ctx.violation('precedence.exception', case, {'tb': core.short_tb(e)}, site=core.raise_site(e))
        return
    finally:
        if tmp:
            try:
                os.unlink(tmp)
            except OSError:
                pass
    ctx.count('oracle.precedence')
    if sheet is None:
        ctx.violation('precedence', case, {'what': 'no sheet returned'})
        return
    problems = []
    # ---- top level
    enc0 = model_encoding(override, top_cfg, None)
    if top_cfg[2] == 'text' and api != 'parseFile' and not override and not top_cfg[0]:
        # text has no byte encoding to detect; its @charset rule (if any) is what the sheet reports
        enc0 = top[0][8:] if top[0] and top[0].startswith('charset:') else 'utf-8'
    if top[0] in WIDE and api != 'parseUrl' and not override:
        # bytes handed to parseString/parseFile are decoded by their BOM before the sheet exists; with no @charset rule the sheet
        # reports UTF-8 ("reported encoding = @charset rule, UTF-8 if there is none"), and that is what it passes on as referring sheet
        enc0 = 'utf-8'
    got_probe0 = probe_of(sheet, 0)
    want_probe0 = expected_probe(0, top_cfg if api != 'parseFile' else (None, top_cfg[1], 'bytes' if isinstance(content, bytes) else 'textfile', 'data'), enc0)
    if api == 'parseFile' and not isinstance(content, bytes):
        want_probe0 = None  # a text written as utf-8: not part of the table
    ctx.count('levels.checked')
    if norm(sheet.encoding) != norm(enc0):
        problems.append('top sheet reports %r, ladder says %r' % (sheet.encoding, enc0))
    if want_probe0 is not None and got_probe0 != want_probe0:
        problems.append('top sheet decoded %r, ladder (%s) gives %r' % (got_probe0, enc0, want_probe0))
    # ---- imported levels
    parent_sheet, parent_enc = sheet, enc0
    reachable = True
    for i, cfg in enumerate(levels, 1):
        imp = [r for r in parent_sheet.cssRules if type(r).__name__ == 'CSSImportRule']
        if not imp:
            problems.append('level %d: the referring sheet has no @import rule' % i)
            break
        child = imp[0].styleSheet
        url = 'http://h/L%d.css' % i
        if cfg[3] != 'data':
            if child is not None and len(child.cssRules):
                problems.append('level %d: fetcher answered %s but the imported sheet has rules' % (i, cfg[3]))
            if any(u == 'http://h/L%d.css' % (i + 1) for u in asked):
                problems.append('level %d was not delivered but level %d was fetched' % (i, i + 1))
            break
        ctx.count('levels.checked')
        if wire_wide(cfg, parent_enc, override):
            ctx.count('levels.wide.' + ('own-bom' if cfg[1] in WIDE else 'inherited'))
        enc = model_encoding(override, cfg, parent_enc)
        if url not in asked:
            problems.append('level %d was never fetched' % i)
            break
        if child is None or not len(child.cssRules):
            problems.append('level %d: delivered but the imported sheet is empty (ladder: %s)' % (i, enc))
            break
        if norm(child.encoding) != norm(enc):
            problems.append('level %d reports %r, ladder says %r' % (i, child.encoding, enc))
        got = probe_of(child, i)
        want = expected_probe(i, cfg, enc, parent_enc, override)
        if got != want:
            problems.append('level %d decoded %r, ladder (%s) gives %r' % (i, got, enc, want))
        # what the sheet reports is its @charset rule
        first = child.cssRules[0]
        rule_enc = first.encoding if type(first).__name__ == 'CSSCharsetRule' else 'utf-8'
        if norm(rule_enc) != norm(child.encoding):
            problems.append('level %d: encoding attribute %r but @charset rule says %r' % (i, child.encoding, rule_enc))
        parent_sheet, parent_enc = child, enc
    if not problems:
        # ---- the finished sheet is told another encoding, then an @import rule object is added: what the parse call was given (override,
        # transport charset) is history; the target is decoded by its own information, else by what the sheet says now
        new_enc = [None, 'iso-8859-5', 'cp437'][(len(asked) + len(levels)) % 3]
        try:
            ctx.count('oracle.late-import')
            sheet.encoding = new_enc
            late_parent[0] = new_enc or 'utf-8'
            rule = c.css.CSSImportRule(href='late.css')
            pos = len([r for r in sheet.cssRules if type(r).__name__ in ('CSSCharsetRule', 'CSSImportRule')])
            sheet.insertRule(rule, pos)
            child = rule.styleSheet
            want_enc = model_encoding(None, late_cfg, new_enc or 'utf-8')
            if child is None or not len(child.cssRules):
                problems.append('late import: delivered but the imported sheet is empty (ladder: %s, sheet now says %s)' % (want_enc, sheet.encoding))
            else:
                if norm(child.encoding) != norm(want_enc):
                    problems.append('late import reports %r, ladder says %r (the sheet now says %r)' % (child.encoding, want_enc, sheet.encoding))
                got = probe_of(child, 9)
                want = expected_probe(9, late_cfg, want_enc, new_enc or 'utf-8', None)
                if got != want:
                    problems.append('late import decoded %r, ladder (%s) gives %r' % (got, want_enc, want))
        except Exception as e:
            problems.append('late import: %s' % core.short_tb(e)[-300:])
    if problems:
        feats = []
        if api == 'parseUrl' and not override and (top[2] or (top[0] and top[1] == 'bytes')) and any('level' in p for p in problems) and not any(p.startswith('top') for p in problems):
            feats.append('parseUrl.detected-encoding-passed-as-override')
        ctx.violation('precedence', case, {'problems': problems[:4], 'asked': asked}, features=feats)


def probe_of(sheet, i):
    for r in sheet.cssRules:
        if type(r).__name__ == 'CSSStyleRule' and r.selectorText == 'p%d' % i:
            v = r.style.getPropertyValue('content')
            return v[1:-1] if len(v) >= 2 and v[0] == '"' else v
    return None


HTTPS = [None, 'koi8-r', 'cp437']
DECLS = [None, 'charset:iso-8859-5', 'charset:mac-roman', 'bom', 'bom16', 'bom32', 'bom16be', 'bom32be']
ANSWERS = ['data', 'data', 'data', 'none', 'nonepair']


def sane(cfg, override=None):
    """a BOM is generated only where the ladder ends at UTF-8 for it (a UTF-8 BOM decoded as cp437 is just garbage in front of
    the first rule) and only for byte delivery"""
    http, decl, delivery, answer = cfg
    if decl in ('bom', 'bom16', 'bom32', 'bom16be', 'bom32be') and (delivery == 'text' or http or override):
        return False
    return True


def level_cfgs():
    for http in HTTPS:
        for decl in DECLS:
            for delivery in ('bytes', 'text'):
                for answer in ('data', 'none', 'nonepair'):
                    yield (http, decl, delivery, answer)


def top_cfgs():
    # (decl, delivery, http-of-top for parseUrl)
    for decl in (None, 'charset:iso-8859-7', 'bom', 'bom16', 'bom16be'):
        for delivery in ('bytes', 'text'):
            for http in (None, 'cp1251'):
                yield (decl, delivery, http)


# ------------------------------------------------------------------------------------------------------------ lossless
BLOCKS = {
    'latin1': 'äöüßéñ¿', 'latin-ext': 'ěščřžłő', 'greek': 'αβγδΩ', 'cyrillic': 'бгджЯ', 'hebrew': 'אבג', 'arabic': 'ابج', 'cjk': '中文字', 'kana': 'あカ', 'symbols': '€™←√∞',
    'box': '─│┼', 'astral': '𝒜😀𐍈', 'plane16': '\U00100000\U0010fffd\U0010ffff', 'c1': '\x80\x85\x9f', 'nbsp-etc': '\xa0\xad ﻿',
}  # fmt: skip
TARGETS = ['ascii', 'iso-8859-1', 'iso-8859-15', 'koi8-r', 'cp1252', 'cp437', 'shift_jis', 'euc-jp', 'gb2312', 'big5', 'utf-8', 'utf-16', 'utf-16-le', 'utf-32', 'iso-8859-7', 'mac-roman']
FOLLOW = ['', ' ', 'a', '0', 'F', 'g', ' x', '  ', '-', '\\', '"', '\t']


def ident_of(rng, chars):
    s = ''.join(rng.choice(chars) for _ in range(rng.randint(1, 3)))
    return rng.choice(['a', 'x-', '_']) + s + rng.choice(['', 'b', '0', 'f', '-z'])


def string_of(rng, chars):
    out = []
    for _ in range(rng.randint(1, 4)):
        out.append(rng.choice(chars))
        out.append(rng.choice(FOLLOW))
    return ''.join(out).replace('"', "'").replace('\\', '/')


def lossless_case(ctx, c, rng, idx):
    block = rng.choice(sorted(BLOCKS))
    chars = BLOCKS[block]
    target = rng.choice(TARGETS)
    pos = rng.choice(['ident', 'string', 'url', 'value', 'attr', 'fontname', 'comment', 'mixed'])
    sel = 'a'
    decls = ['top:0']
    comment = ''
    if pos in ('ident', 'mixed'):
        sel = '%s, .%s, #%s' % (ident_of(rng, chars), ident_of(rng, chars), ident_of(rng, chars))
    if pos in ('string', 'mixed'):
        decls.append('content:"%s"' % string_of(rng, chars))
    if pos in ('url', 'mixed'):
        decls.append('background:url("%s.png")' % string_of(rng, chars).replace(' ', '_').replace('\t', '_').replace("'", '_'))
    if pos in ('value', 'mixed'):
        decls.append('font-family:%s' % ident_of(rng, chars))
    if pos == 'attr':
        sel = 'a[title="%s"]' % string_of(rng, chars)
    if pos == 'fontname':
        decls.append('quotes:"%s" "%s"' % (string_of(rng, chars), string_of(rng, chars)))
    if pos == 'comment':
        comment = '/* %s */' % string_of(rng, chars).replace('*/', '')
    text = '%s%s{%s}' % (comment, sel, ';'.join(decls))
    case = {'kind': 'lossless', 'text': text, 'target': target, 'block': block, 'pos': pos}
    core.canonical_state(c, raising=False)
    ctx.count('oracle.lossless')
    try:
        sheet = c.parseString(text)
        want = projection.project(sheet, comments=False, with_valid=False)
        if not len(sheet.cssRules):
            ctx.count('lossless.input-not-parsed')
            return
        sheet.encoding = target
        data = sheet.cssText
    except Exception as e:
        ctx.violation('lossless.exception', case, {'tb': core.short_tb(e)}, site=core.raise_site(e))
        return
    if not isinstance(data, bytes):
        ctx.violation('lossless', case, {'what': 'cssText is not a byte string', 'type': type(data).__name__})
        return
    if norm(sheet.encoding) != norm(target):
        ctx.violation('lossless', case, {'what': 'sheet.encoding %r after setting %r' % (sheet.encoding, target)})
        return
    try:
        decoded = data.decode(sheet.encoding)
    except Exception as e:
        ctx.violation('lossless', case, {'what': 'serialised bytes are not decodable in sheet.encoding', 'error': repr(e)[:200], 'bytes': repr(data[:120])})
        return
    if '\\' in decoded and '\\' not in text:
        ctx.count('escapes.needed')
    try:
        back = c.parseString(data)
        got = projection.project(back, comments=False, with_valid=False)
        got2 = projection.project(c.parseString(decoded), comments=False, with_valid=False)
    except Exception as e:
        ctx.violation('lossless.exception', case, {'stage': 'reparse', 'tb': core.short_tb(e)}, site=core.raise_site(e))
        return
    strip = lambda p: [x for x in p if not (isinstance(x, (list, tuple)) and x and x[0] == 'charset')]  # noqa: E731
    d = projection.diff(strip(want), strip(got))
    if d:
        feats = []
        ctx.violation('lossless', case, {'diff': str(d)[:400], 'serialised': decoded[:300]}, features=feats)
        return
    # the projection decodes escapes itself (cssutils keeps some undecoded by design), which would hide an escape the parser no longer
    # resolves: compare the raw DOM strings, too (the generated texts contain no backslash, so every one in the DOM would be a left-over)
    raw_a, raw_b = raw_dom(sheet), raw_dom(back)
    if raw_a != raw_b:
        ctx.violation('lossless', case, {'what': 'raw DOM strings differ after decode+reparse', 'before': str(raw_a)[:300], 'after': str(raw_b)[:300], 'serialised': decoded[:300]})
        return
    d2 = projection.diff(strip(want), strip(got2))
    if d2:
        ctx.violation('lossless', case, {'what': 'decoded text reparses differently', 'diff': str(d2)[:400], 'serialised': decoded[:300]})
        return
    if pos == 'comment':
        # comments: present and (when representable) identical
        try:
            chars_ok = True
            comment.encode(target)
        except UnicodeEncodeError:
            chars_ok = False
        cm = [r.cssText for r in back.cssRules if type(r).__name__ == 'CSSComment']
        if chars_ok and cm != [comment]:
            ctx.violation('lossless', case, {'what': 'representable comment changed', 'got': cm, 'want': comment})
            return
        if not chars_ok:
            ctx.count('lossless.comment-not-representable')
            if len(cm) != 1:
                ctx.violation('lossless', case, {'what': 'comment dropped', 'got': cm})
                return
    ctx.seen(['L', target, block, pos])


def raw_dom(sheet):
    out = []
    for r in sheet.cssRules:
        if type(r).__name__ == 'CSSStyleRule':
            out.append(('sel', r.selectorText))
            for p in r.style.getProperties(all=True):
                out.append((p.name, [getattr(v, 'value', None) if getattr(v, 'type', None) in ('STRING', 'IDENT', 'URI') else None for v in p.propertyValue]))
    return out


BOMS = {'bom': (codecs.BOM_UTF8, None), 'bom16': (codecs.BOM_UTF16_LE, 'utf-16-le'), 'bom32': (codecs.BOM_UTF32_LE, 'utf-32-le'),
        'bom16be': (codecs.BOM_UTF16_BE, 'utf-16-be'), 'bom32be': (codecs.BOM_UTF32_BE, 'utf-32-be')}


def conflict_case(ctx, c, case):
    """a byte order mark against a stronger source (override, transport charset): the stronger source decides, for the sheet
    handed to parseUrl and for an imported one alike.  (What the mark's bytes read as in that encoding is garbage in front of
    the first rule: only the reported encoding, and for a UTF-8 mark the decoded probe, are asked.)"""
    where, http, decl, override = case['where'], case['http'], case['decl'], case['override']
    bom, wide = BOMS[decl]
    content = bom + ('p0{content:"W"}'.encode(wide) if wide else b'p0{content:"' + PROBE + b'"}')
    core.canonical_state(c, raising=False)
    ctx.count('oracle.conflict')
    try:
        parser = c.CSSParser(fetcher=lambda url: (http, content))
        if where == 'top':
            sheet = parser.parseUrl('http://h/top.css', encoding=override)
        else:
            outer = parser.parseString('@import "L1.css";', href='http://h/top.css', encoding=override)
            sheet = outer.cssRules[-1].styleSheet
        want = override or http
        problems = []
        if sheet is None:
            problems.append('no sheet')
        else:
            if norm(sheet.encoding) != norm(want):
                problems.append('sheet reports %r, ladder says %r' % (sheet.encoding, want))
            if not wide:
                got = [r.style.getPropertyValue('content') for r in sheet.cssRules if type(r).__name__ == 'CSSStyleRule' and r.selectorText.endswith('p0')]
                if got != ['"%s"' % PROBE.decode(want)]:
                    problems.append('decoded %r, ladder (%s) gives %r' % (got, want, PROBE.decode(want)))
        if problems:
            ctx.violation('precedence', case, {'problems': problems})
    except Exception as e:
        ctx.violation('precedence.exception', case, {'tb': core.short_tb(e)}, site=core.raise_site(e))
    core.canonical_state(c)


def stream_conflict(ctx, c):
    idx = 0
    for rep in range(1 if ctx.tier == 'quick' else 10):
        for where in ('top', 'import'):
            # (single-byte encodings that define every byte of the marks: a decoding error is another matter)
            for http in ('koi8-r', 'cp437', 'iso-8859-2', 'cp1251'):
                for decl in BOMS:
                    for override in (None, 'iso-8859-5', 'cp1251'):
                        idx += 1
                        if not ctx.mine(idx):
                            continue
                        ctx.count('evaluations')
                        case = {'kind': 'conflict', 'where': where, 'http': http, 'decl': decl, 'override': override}
                        conflict_case(ctx, c, case)
                        ctx.seen(['X', where, http, decl, override])


def run_worker(ctx):
    c, _ = core.import_repo()
    quick = ctx.tier == 'quick'
    idx = 0
    stream_conflict(ctx, c)
    # ---- depth-1 table, complete
    for api in ('parseString', 'parseUrl', 'parseFile'):
        for override in (None, 'iso-8859-2'):
            for top in top_cfgs():
                if api != 'parseUrl' and top[2]:
                    continue
                if not sane((top[2], top[0], top[1], 'data'), override):
                    continue
                for cfg in level_cfgs():
                    if not sane(cfg, override):
                        continue
                    idx += 1
                    if ctx.k == 0:
                        ctx.count('table.depth1-rows')
                    if not ctx.mine(idx):
                        continue
                    ctx.count('evaluations')
                    case = {'kind': 'chain', 'api': api, 'override': override, 'top': list(top), 'levels': [list(cfg)]}
                    run_chain(ctx, c, api, override, top, [cfg], case)
                    ctx.seen(['P', api, override, top, cfg])
    # ---- deeper chains, sampled
    tops = list(top_cfgs())
    n = 42000 if quick else 560000
    for i in range(n):
        if not ctx.mine(i):
            continue
        rng = ctx.rng('chain', i)
        api = rng.choice(['parseString', 'parseString', 'parseUrl', 'parseFile'])
        override = rng.choice([None, None, None, 'iso-8859-2', 'koi8-r'])
        top = rng.choice([t for t in tops if api == 'parseUrl' or not t[2]])
        depth = rng.choice([2, 2, 3])
        levels = []
        if not sane((top[2], top[0], top[1], 'data'), override):
            continue
        while len(levels) < depth:
            cfg = (rng.choice(HTTPS), rng.choice(DECLS), rng.choice(['bytes', 'bytes', 'text']), rng.choice(ANSWERS))
            if sane(cfg, override):
                levels.append(cfg)
        ctx.count('evaluations')
        case = {'kind': 'chain', 'api': api, 'override': override, 'top': list(top), 'levels': [list(x) for x in levels]}
        run_chain(ctx, c, api, override, top, levels, case)
        ctx.seen(['P', api, override, top, tuple(levels)])
    # ---- lossless serialisation
    n = 20000 if quick else 300000
    for i in range(n):
        if not ctx.mine(i):
            continue
        ctx.count('evaluations')
        lossless_case(ctx, c, ctx.rng('loss', i), i)
    ctx.sample({'chain': {'api': 'parseUrl', 'override': None, 'top': [None, 'bytes', 'cp1251'], 'levels': [['koi8-r', 'charset:iso-8859-5', 'bytes', 'data'], [None, None, 'bytes', 'data']]},
                'expect': 'L1 decoded as koi8-r (transport beats @charset), L2 inherits koi8-r'})


def replay(ctx, case):
    c, _ = core.import_repo()
    if case['kind'] == 'chain':
        run_chain(ctx, c, case['api'], case['override'], tuple(case['top']), [tuple(x) for x in case['levels']], case)
    elif case['kind'] == 'conflict':
        conflict_case(ctx, c, case)
    else:
        import random

        # replay the exact text
        rng = random.Random(0)
        core.canonical_state(c, raising=False)
        _replay_lossless(ctx, c, case)


def _replay_lossless(ctx, c, case):
    text, target = case['text'], case['target']
    try:
        sheet = c.parseString(text)
        want = projection.project(sheet, comments=False, with_valid=False)
        sheet.encoding = target
        data = sheet.cssText
        decoded = data.decode(sheet.encoding)
        got = projection.project(c.parseString(data), comments=False, with_valid=False)
    except Exception as e:
        ctx.violation('lossless.exception', case, {'tb': core.short_tb(e)}, site=core.raise_site(e))
        return
    strip = lambda p: [x for x in p if not (isinstance(x, (list, tuple)) and x and x[0] == 'charset')]  # noqa: E731
    d = projection.diff(strip(want), strip(got))
    if d:
        ctx.violation('lossless', case, {'diff': str(d)[:400], 'serialised': decoded[:300]})
