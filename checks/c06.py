"""C06 - serializer preferences do exactly what they document, in every combination (DESIGN section 6, C06; Appendix A7).

For a DOM D and a preference assignment P: out = D.cssText under P must reparse without syntax errors and its projection
must equal model(P, project(D)); for pure layout assignments the non-white-space token sequence must equal that of the
default output; after useDefaults() the output is byte-identical to the first default output."""

import re

from engine import core
from gen import sheets as G
from models import projection as P

PROPERTY = 'C06'
LEVEL = 'exploration'
LEVEL_TEXT = (
    'Each preference alone, all pairs of content preferences, the minified preset, the preset with single overrides and random full '
    'assignments, applied to generated DOMs that contain the construct each preference talks about (comments, unknown rules, unused '
    'namespaces, duplicate and invalid declarations, literal spellings, hashes, fractions); judged by a reference model of the documented '
    'effect on the projection, by token-sequence equality for layout preferences and by byte equality after useDefaults().'
)
LEVEL_NOTE = 'trusted: the preference model below (A7), models/projection.py, the repository tokenizer for the token-sequence comparison (itself the subject of C05)'
TECHNIQUE = 'runtime monitoring: reference model of the documented preference effects + metamorphic layout/token-sequence and restore oracles'
DESIGN_REF = 'DESIGN.md section 6, C06; Appendix A7'
RULE = (
    'assignments: every preference alone, all pairs of the 12 content preferences, minified preset (+ single overrides), random full '
    'assignments; x generated DOMs; distinct_nontrivial = distinct (assignment, DOM) pairs with >= 2 rules whose output was reparsed and '
    'compared with the model'
)
ASSUMPTIONS = [
    'layout strings are white space only',
    'a rule left with comments only is not asserted either way (is it "empty"?)',
    'resolveVariables is exercised on hand-written variable sheets (the generator has no @variables)',
]
MIN_EVENTS = {'quick': {'oracle.model': 5500, 'oracle.layout-tokens': 1800, 'oracle.restore': 700, 'oracle.at-keyword-spelling': 4000, 'dom.edited': 12, 'prefs.covered': 22},
              'thorough': {'oracle.model': 120000, 'oracle.layout-tokens': 40000, 'oracle.restore': 15000, 'oracle.at-keyword-spelling': 80000, 'dom.edited': 12, 'prefs.covered': 22}}

CONTENT = {
    'keepComments': [False], 'keepEmptyRules': [True], 'keepUnknownAtRules': [False], 'keepUsedNamespaceRulesOnly': [True],
    'keepAllProperties': [False], 'validOnly': [True], 'importHrefFormat': ['string', 'uri'], 'defaultAtKeyword': [False],
    'defaultPropertyName': [False], 'defaultPropertyPriority': [False], 'minimizeColorHash': [False], 'omitLeadingZero': [True],
    'omitLastSemicolon': [False], 'normalizedVarNames': [False], 'resolveVariables': [False],
}  # fmt: skip
LAYOUT = {
    'indent': ['', ' ', '\t', '  '], 'indentClosingBrace': [False], 'lineSeparator': ['', ' ', '\r\n', '\n\n'], 'listItemSpacer': ['', '  ', '\n'],
    'paranthesisSpacer': ['', '  ', '\n'], 'propertyNameSpacer': ['', '  ', '\t'], 'selectorCombinatorSpacer': ['', '  '], 'spacer': ['', '  ', '\n'],
    'indentSpecificities': [True], 'lineNumbers': [True],
}  # fmt: skip
ALLPREFS = sorted(list(CONTENT) + list(LAYOUT))


def norm(x):
    if isinstance(x, (list, tuple)):
        return [norm(i) for i in x]
    if isinstance(x, dict):
        return {k: norm(v) for k, v in x.items()}
    return x


def used_namespaces(proj):
    used = set()

    def sel(s):
        for t in s['seq']:
            if t[0] == 'type' and t[1] not in (None, 'ANY'):
                used.add(t[1])
            elif t[0] == 'attr' and t[1] not in (None, 'ANY'):
                used.add(t[1])
            elif t[0] == 'not' and t[1] and t[1][0] in ('type', 'attr') and t[1][1] not in (None, 'ANY'):
                used.add(t[1][1])

    def rules(rs):
        for r in rs:
            if r[0] == 'style':
                for s in r[1]:
                    sel(s)
            elif r[0] == 'media':
                rules(r[2])

    rules(proj)
    return used


class Ambiguous(Exception):
    pass


def var_name(n):
    from models.scan import decode

    return decode(n, keep_simple=False).lower()


def resolve_comp(c, variables):
    if c and c[0] == 'var' and var_name(c[1]) in variables:
        return list(variables[var_name(c[1])])
    if c and c[0] == 'func':
        out = []
        for a in c[2]:
            out.extend(resolve_comp(a, variables))
        return [[c[0], c[1], out, c[3]]]
    if c and c[0] == 'calc':
        out = []
        for a in c[1]:
            out.extend(resolve_comp(a, variables) if isinstance(a, (list, tuple)) else [a])
        return [[c[0], out]]
    return [c]


def model(prefs, proj, variables=None):
    """documented effect of the content preferences on a projection carrying validity flags; returns a plain projection.
    variables: {normalized name: [component projections]} of the sheet's @variables rules (resolveVariables)"""
    used = used_namespaces(proj)
    resolve = prefs.get('resolveVariables', True) and variables is not None
    if variables and prefs.get('validOnly', False):
        raise Ambiguous('validity of a declaration using var() under validOnly is not specified')

    def items(its):
        its = list(its)
        if not prefs.get('keepComments', True):
            its = [i for i in its if i[0] != 'comment']
        def only_valid(x):
            return [i for i in x if i[0] != 'decl' or i[5]]

        def only_effective(x):
            keep = {}
            for idx, i in enumerate(x):
                if i[0] != 'decl':
                    continue
                cur = keep.get(i[1])
                # the last important entry wins, else the last entry
                if cur is None or i[4] or not x[cur][4]:
                    keep[i[1]] = idx
            return [i for idx, i in enumerate(x) if i[0] != 'decl' or keep[i[1]] == idx]

        vo, eff = prefs.get('validOnly', False), not prefs.get('keepAllProperties', True)
        if vo and eff:
            a, b = only_effective(only_valid(its)), only_valid(only_effective(its))
            if a != b:
                raise Ambiguous('validOnly and keepAllProperties=False: the order of the two filters is not documented')
            its = a
        elif vo:
            its = only_valid(its)
        elif eff:
            its = only_effective(its)
        out = []
        for i in its:
            if i[0] != 'decl':
                out.append(i)
                continue
            comps = i[2]
            if resolve:
                new = []
                for c in comps:
                    new.extend(resolve_comp(c, variables))
                if len(new) != len(comps):
                    raise Ambiguous('a variable expanding to several components changes the separator list')
                comps = new
            out.append([i[0], i[1], comps, i[3], i[4]])
        return out

    def nodecl(its):
        return not any(i[0] == 'decl' for i in its)

    def rules(rs):
        out = []
        for r in rs:
            k = r[0]
            if k == 'comment':
                if prefs.get('keepComments', True):
                    out.append(r)
            elif k == 'unknown':
                if prefs.get('keepUnknownAtRules', True):
                    out.append(r)
            elif k == 'variables':
                if not prefs.get('resolveVariables', True):
                    out.append(r)
            elif k == 'namespace':
                if prefs.get('keepUsedNamespaceRulesOnly', False) and r[2] not in used:
                    continue
                out.append(r)
            elif k == 'style':
                its = items(r[2])
                if nodecl(its):
                    if its:
                        raise Ambiguous('style rule left with comments only')
                    if not prefs.get('keepEmptyRules', False):
                        continue
                out.append(('style', r[1], its))
            elif k == 'fontface':
                its = items(r[1])
                if nodecl(its):
                    if its or prefs.get('keepEmptyRules', False):
                        raise Ambiguous('empty @font-face: keepEmptyRules is documented for style rules only')
                    continue
                out.append(('fontface', its))
            elif k == 'page':
                its = items(r[2])
                boxes = []
                for b in r[3]:
                    bi = items(b[1])
                    if nodecl(bi):
                        raise Ambiguous('empty margin box')
                    boxes.append((b[0], bi))
                if nodecl(its) and not boxes:
                    if its or prefs.get('keepEmptyRules', False):
                        raise Ambiguous('empty @page: keepEmptyRules is documented for style rules only')
                    continue
                out.append(('page', r[1], its, boxes))
            elif k == 'media':
                inner = rules(r[2])
                if not any(x[0] in ('style', 'media', 'page', 'fontface') for x in inner):
                    if inner or prefs.get('keepEmptyRules', False):
                        raise Ambiguous('@media left without rules')
                    continue
                out.append(('media', r[1], inner))
            else:
                out.append(r)
        return out

    return rules(proj)


SYNTAX_NOISE = ('Property: Invalid value', 'Property: Unknown Property', 'CSSImportRule: While processing', 'URLError', 'Unknown @rule', 'Found valid', 'FileNotFound', 'Expected "text/css"')


def syntax_errors(log):
    return [m for m in log.errors() if not any(n in m for n in SYNTAX_NOISE)]


def tokens_no_ws(cssutils, text):
    from cssutils.tokenize2 import Tokenizer

    return [(t[0], t[1]) for t in Tokenizer().tokenize(text) if t[0] != 'S']


def strip_line_numbers(text):
    return '\n'.join(re.sub(r'^\s*\d+: ', '', line) for line in text.split('\n'))


def apply(cssutils, assignment, preset=None):
    prefs = cssutils.ser.prefs
    prefs.useDefaults()
    if preset == 'minified':
        prefs.useMinified()
    for k, v in assignment.items():
        setattr(prefs, k, v)
    if prefs.lineNumbers and prefs.lineSeparator != '\n':
        # numbered lines can only be told apart (and the numbers stripped again) with the default separator
        prefs.lineNumbers = False


def effective_prefs(cssutils):
    return dict(vars(cssutils.ser.prefs))


def judge(ctx, cssutils, sheet, src, assignment, preset, default_out, p_full):
    names = sorted(assignment) + ([preset] if preset else [])
    case = {'kind': 'prefs', 'source': src, 'assignment': assignment, 'preset': preset}
    feats = []
    if assignment.get('lineSeparator') == ' ' and (assignment.get('indent', '    ') != '' or preset != 'minified'):
        feats.append('lineSeparator.space')
    ctx.count('evaluations')
    try:
        core.canonical_state(cssutils)
        apply(cssutils, assignment, preset)
        eff = effective_prefs(cssutils)
        out = sheet.cssText
        cssutils.ser.prefs.useDefaults()
        restored = sheet.cssText
    except Exception as e:
        cssutils.ser.prefs.useDefaults()
        ctx.violation('exception', case, {'tb': core.short_tb(e)}, features=feats, site=core.raise_site(e))
        return
    ctx.count('oracle.restore')
    if restored != default_out:
        ctx.violation('restore-defaults', case, {'default': default_out.decode('utf-8', 'replace')[:300], 'after': restored.decode('utf-8', 'replace')[:300]}, features=feats)
    text = out.decode('utf-8')
    if eff.get('lineNumbers'):
        text = strip_line_numbers(text)
    case['output'] = text
    try:
        with core.LogCapture(cssutils) as log:
            sheet2 = cssutils.parseString(text)
        got = norm(P.project(sheet2))
    except Exception as e:
        ctx.violation('reparse.exception', case, {'tb': core.short_tb(e)}, features=feats, site=core.raise_site(e))
        return
    errs = syntax_errors(log)
    for n in names:
        ctx.count('pref.' + n)
    if not eff.get('keepComments', True):
        # "drop comments": none is left anywhere - also not inside selectors, media queries, values (the projection does not look there)
        ctx.count('oracle.no-comment-left')
        if any(t[0] == 'COMMENT' for t in cssutils.tokenize2.Tokenizer().tokenize(text, fullsheet=True)):
            ctx.violation('comment-left', case, {'output': text[:400]}, features=feats)
    try:
        exp = norm(model(eff, p_full, variables_of(cssutils, sheet)))
    except Ambiguous as a:
        ctx.count('skipped.ambiguous')
        return
    ctx.count('oracle.model')
    if errs:
        ctx.violation('reparse.syntax-errors', case, {'errors': errs[:4]}, features=feats)
    d = P.diff(got, exp)
    if d is not None:
        ctx.violation('model', case, {'diff': d}, features=feats)
    if ' /* edited: ' not in src:
        # "literal versus normalised keywords": with defaultAtKeyword off the at-keywords are the spellings of the source, in its order
        # (rules that other preferences drop are missing); with it on, every keyword cssutils knows is written in its normal form
        ctx.count('oracle.at-keyword-spelling')
        kws = lambda t: [x[1] for x in cssutils.tokenize2.Tokenizer().tokenize(t, fullsheet=True) if x[0] == 'ATKEYWORD' or x[0].endswith('_SYM')]  # noqa: E731
        out_kw = kws(text)
        if eff.get('defaultAtKeyword', True):
            bad = [k for k in out_kw if cssutils.helper.normalize(k) in KNOWN_AT and k != cssutils.helper.normalize(k)]
            if bad:
                ctx.violation('at-keyword-spelling', case, {'what': 'not in normal form', 'keywords': bad[:5]}, features=feats)
        else:
            nz = cssutils.helper.normalize
            kept = lambda ks: [k for k in ks if nz(k) in LITERAL_KEPT]  # noqa: E731
            src_it = iter(kept(kws(src)))
            missing = [k for k in kept(out_kw) if not any(k == s_ for s_ in src_it)]
            if missing:
                ctx.violation('at-keyword-spelling', case, {'what': 'not the spelling of the source (in its order)', 'keywords': missing[:5], 'source_keywords': kws(src)[:20]}, features=feats)
            # (the other rule kinds never keep their literal keyword: recorded as a finding of its own, by rule kind)
            src_other = iter([k for k in kws(src) if nz(k) not in LITERAL_KEPT])
            lost = [k for k in out_kw if nz(k) not in LITERAL_KEPT and not any(k == s_ for s_ in src_other)]
            if lost:
                ctx.violation('at-keyword-spelling', case, {'what': 'not the spelling of the source (in its order)', 'keywords': lost[:5], 'source_keywords': kws(src)[:20]},
                              features=feats + ['at-keyword.rule-kind-without-literal'])
    if all(k in LAYOUT for k in assignment) and not preset:
        ctx.count('oracle.layout-tokens')
        a = tokens_no_ws(cssutils, text)
        b = tokens_no_ws(cssutils, default_out.decode('utf-8'))
        if a != b:
            k = next((i for i in range(min(len(a), len(b))) if a[i] != b[i]), min(len(a), len(b)))
            ctx.violation('layout-token-sequence', case, {'at': k, 'with_prefs': a[max(0, k - 3) : k + 3], 'default': b[max(0, k - 3) : k + 3]}, features=feats)
    if len(p_full) >= 2:
        ctx.seen(['A', sorted(assignment.items()), preset, core.h8(src)])


KNOWN_AT = {'@charset', '@import', '@namespace', '@media', '@page', '@font-face', '@variables', '@top-left-corner', '@top-left', '@top-center', '@top-right',
            '@top-right-corner', '@bottom-left-corner', '@bottom-left', '@bottom-center', '@bottom-right', '@bottom-right-corner', '@left-top', '@left-middle',
            '@left-bottom', '@right-top', '@right-middle', '@right-bottom'}  # fmt: skip


LITERAL_KEPT = KNOWN_AT - {'@charset', '@media', '@page', '@font-face', '@variables'}


def variables_of(cssutils, sheet):
    out = {}
    for r in sheet.cssRules:
        if type(r).__name__ == 'CSSVariablesRule':
            for k in r.variables.keys():
                pv = cssutils.css.PropertyValue(r.variables[k])
                comps, seps = P.p_propertyvalue(pv)
                out[k] = norm(comps)
    return out


def all_rules(sheet):
    out = []

    def rec(rs):
        for r in rs:
            out.append(r)
            if hasattr(r, 'cssRules') and r.type in (r.MEDIA_RULE,):
                rec(r.cssRules)

    rec(sheet.cssRules)
    return out


def assignments(rng, tier):
    """(assignment dict, preset) pairs"""
    out = []
    for k, vals in list(CONTENT.items()) + list(LAYOUT.items()):
        for v in vals:
            out.append(({k: v}, None))
    keys = sorted(CONTENT)
    for i, a in enumerate(keys):
        for b in keys[i + 1 :]:
            out.append(({a: CONTENT[a][0], b: CONTENT[b][0]}, None))
    out.append(({}, 'minified'))
    for k, vals in list(CONTENT.items()) + list(LAYOUT.items()):
        out.append(({k: vals[0]}, 'minified'))
    lay = sorted(LAYOUT)
    for _ in range(30):
        a = {k: rng.choice(LAYOUT[k]) for k in rng.sample(lay, rng.randint(2, 5))}
        out.append((a, None))
    for _ in range(40):
        a = {}
        for k in rng.sample(ALLPREFS, rng.randint(3, 10)):
            a[k] = rng.choice((CONTENT.get(k) or LAYOUT.get(k)))
        out.append((a, None))
    return out


EXTRA_SHEETS = [
    '@variables{c:red;W:10px}\na{color:var(c);width:var(W)}\nb{top:var(nope)}',
    '@namespace p "urn:p";@namespace q "urn:q";@namespace "urn:d";p|a{top:0}e{left:0}*|x{top:1px}a:not(q|b){top:0}',
    'a{color:red;COLOR:blue!important;c\\olor:green;color:gold !IMPORTANT;top:0.50px;left:-0.5em;width:#AABBCC;x-foo:1}',
    '@IMPORT "a.css";@import url(b.css) tv;@MEDIA print{a{top:0}}@x y;/*c*/a{/*in*/top:0;/*end*/}@page :first{margin:0}@font-face{font-family:x}',
    'a{top:.5px;left:0.5px;right:-.25em;bottom:10.50%;width:100.0px}b{color:#FFFFFF;background:#aabbcc #abcdef}',
    # variables: declared twice in one block / in two blocks, referenced in other spellings, inside lists and functions, with fallbacks
    '@variables{pad:1px;c:red;pad:2px}\na{padding:var(pad);color:var(c)}',
    '@variables{pad:1px}@variables{pad:3px;W:1em}\na{padding:var(pad) var(W)}b{margin:var(PAD) var(w)}',
    '@variables{MainColor:#fff;gap:2px}\na{color:var(MainColor);margin:var(GAP) var(\\gap)}b{width:calc(var(gap) * 2);top:var(nope, 3px)}',
    '@variables{u:url(a.png);f:x, y}\na{background:var(u) no-repeat;font-family:var(f), serif}@media print{b{background-image:var(u)}}',
    # empty rules and namespaces used by nothing else (keepEmptyRules x keepUsedNamespaceRulesOnly); queries holding what preferences touch
    '@namespace p "urn:p";@namespace q "urn:q";@namespace r "urn:r";p|a{}q|b{top:0}e{}@media tv{r|c{}}',
    '@import "a.css" tv and (max-width:0.50em);@media screen /*m*/ and (min-width:0.5em) and /*n*/ (color:#AABBCC){a /*s*/ b{top:0.5px /*v*/}}@media /*o*/ print{b{left:0}}',
    # at-keywords in other spellings, margin boxes included
    '@IMPORT "a.css";@NameSpace p "urn:p";@Media tv{p|a{top:0}}@PAGE :first{margin:0;@TOP-Left{content:"x"}@bottom-CENTER{content:"y"}}@Font-Face{font-family:x}@x-Y z;',
    '@i\\mport "a.css";@m\\edia tv{a{top:0}}@page{margin:0;@top-\\left{content:"x"}@TOP-RIGHT{content:"y"}}',
    # selector lists edited item by item (namespace prefixes come and go)
    ('@namespace p "urn:p";@namespace q "urn:q";p|a, b{top:0}', 'selector-item-assign'),
    ('@namespace p "urn:p";@namespace q "urn:q";p|a, b{top:0}', 'selector-item-delete'),
    ('@namespace p "urn:p";@namespace q "urn:q";p|a, b{top:0}@media tv{p|c, d{left:0}}', 'selector-item-text'),
    # DOMs that were edited after parsing: objects handed to the DOM instead of text
    ('@variables{c:red;w:2px}\na{top:0}@font-face{font-family:x}', 'property-objects'),
    ('@variables{c:red}\na{top:0}@media tv{b{left:0}}@page{margin:0}', 'property-objects'),
    ('a{color:red}b{color:blue;top:0}', 'moved-properties'),
]


def edit_dom(cssutils, sheet, how):
    css = cssutils.css
    if how == 'property-objects':
        for r in all_rules(sheet):
            if hasattr(r, 'style') and type(r).__name__ != 'CSSFontFaceRule':
                r.style.setProperty(css.Property('color', 'var(c)'))
                r.style.setProperty(css.Property('margin', 'var(w, 1px) 0', 'important'), replace=False)
            elif type(r).__name__ == 'CSSFontFaceRule':
                r.style.setProperty(css.Property('font-weight', 'bolder'))  # (not a valid descriptor value: validOnly drops it)
                r.style.setProperty(css.Property('src', 'url(f.woff)'))
    elif how.startswith('selector-item'):
        for r in all_rules(sheet):
            if type(r).__name__ == 'CSSStyleRule':
                if how == 'selector-item-assign':
                    r.selectorList[1] = 'q|b'
                elif how == 'selector-item-delete':
                    del r.selectorList[0]
                else:
                    r.selectorList[0].selectorText = 'q|z'
    elif how == 'moved-properties':
        a, b = [r for r in sheet.cssRules if type(r).__name__ == 'CSSStyleRule'][:2]
        for prop in list(b.style.getProperties(all=True)):
            a.style.setProperty(prop, replace=False)


def run_worker(ctx):
    cssutils, _ = core.import_repo()
    quick = ctx.tier == 'quick'
    parser = cssutils.CSSParser()
    n = 90 if quick else 2200
    covered = set()
    for i in range(n):
        if not ctx.mine(i):
            continue
        rng = ctx.rng('dom', i)
        edit = None
        if i < len(EXTRA_SHEETS) * 3:
            src = EXTRA_SHEETS[i % len(EXTRA_SHEETS)]
            if isinstance(src, tuple):
                src, edit = src
        else:
            g = G.Gen(rng, namespaces=rng.random() < 0.5, max_stmts=5)
            stmts = g.sheet()
            from checks import c02

            if c02.features_of(stmts, 'neutral'):
                continue
            axis = rng.choice(['neutral', 'case', 'escapes', 'numspell', 'comments', 'comments'])  # (comments also inside selectors, preludes and values)
            src, rfeats = G.render2(stmts, G.style_with(axis), ctx.rng('r', i))
            if rfeats:
                continue
        try:
            core.canonical_state(cssutils)
            sheet = parser.parseString(src)
            if edit:
                edit_dom(cssutils, sheet, edit)
                src = src + ' /* edited: ' + edit + ' */'
                ctx.count('dom.edited')
            default_out = sheet.cssText
            p_full = norm(P.project(sheet, with_valid=True))
        except Exception as e:
            ctx.violation('exception', {'kind': 'prefs', 'source': src}, {'tb': core.short_tb(e)}, site=core.raise_site(e))
            continue
        al = assignments(rng, ctx.tier)
        if quick:
            al = al[: len(CONTENT) + 20] + rng.sample(al, 60)
        for a, preset in al:
            judge(ctx, cssutils, sheet, src, a, preset, default_out, p_full)
        if i < 2:
            ctx.sample({'source': src[:300], 'assignments_tried': len(al)})
    for k in ALLPREFS:
        if ctx.counters.get('pref.' + k):
            covered.add(k)
    if ctx.k == 0:
        ctx.count('prefs.covered', len(covered))


def replay(ctx, case):
    cssutils, _ = core.import_repo()
    core.canonical_state(cssutils)
    import re

    src = case['source']
    m = re.search(r' /\* edited: ([\w-]+) \*/$', src)
    sheet = cssutils.CSSParser().parseString(src[: m.start()] if m else src)
    if m:
        edit_dom(cssutils, sheet, m.group(1))
    default_out = sheet.cssText
    p_full = norm(P.project(sheet, with_valid=True))
    judge(ctx, cssutils, sheet, case['source'], case.get('assignment', {}), case.get('preset'), default_out, p_full)
    cssutils.ser.prefs.useDefaults()
