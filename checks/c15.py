"""C15 - namespace declarations and namespaced selectors stay consistent (DESIGN section 6, C15).

Monitor: random and exhaustive-short histories of namespace edits (declare through the mapping, re-bind a prefix, delete through
the mapping, insert / add / delete @namespace rules as text and as objects, change prefix / URI / text of a rule that is part
of the sheet, add namespaced style rules at top level and inside @media, move style rules between sheets) on sheets with type,
universal, attribute and :not() selectors using explicit prefixes, '*|', '|' and the default namespace.  After every edit,
accepted or rejected, a shadow model is compared with the live objects:

 mapping        dict(sheet.namespaces) equals the effective @namespace rules (last declaration of a URI wins, one prefix per
                URI, no prefix declared twice), and each rule's own text parses back to the same (prefix, URI)
 declared       every URI used by a selector reachable from the sheet is declared
 used-delete    an accepted edit never removed the last declaration of a URI that a selector uses
 pairs-stable   the (namespace URI, local name) pairs of every selector that was not itself re-assigned are what they were
                when the selector was accepted
 reparse-pairs  the serialised sheet parses without namespace errors and every selector resolves to the same pairs
 undeclared     a style rule text using a prefix the sheet does not declare is rejected"""

import xml.dom

from checks import domwalk as W
from engine import core

PROPERTY = 'C15'
LEVEL = 'exploration'
LEVEL_TEXT = (
    'Exhaustive histories of length <= 2 (quick) / 3 (thorough) over ~60 namespace operation templates from five seed sheets plus random '
    'histories of 8-40 operations; after each operation the mapping/rules agreement, declaredness of used URIs, stability of every '
    "selector's (URI, local name) pairs and their re-resolution from the serialised text are checked against a shadow model."
)
LEVEL_NOTE = 'trusted: the pair extraction from Selector.seq and the effective-declaration model (CSS Namespaces section 2: last declaration wins)'
TECHNIQUE = 'runtime monitoring: shadow model of declarations and selector denotations checked at quiescent points over exhaustive short and random long edit histories'
DESIGN_REF = 'DESIGN.md section 6, C15'
RULE = 'namespace edit histories; distinct_nontrivial = distinct (sorted mapping, operation kind, outcome) tuples reached'
EXHAUSTIVE = {'quick': False, 'thorough': False}
EXHAUSTIVE_NOTE = 'histories of length <= 2 (quick) / <= 3 (thorough, sampled 1:5 at length 3) over the operation templates are enumerated from the seed sheets'
ASSUMPTIONS = [
    'an unprefixed type selector parsed without a default namespace denotes "any namespace" (CSS Namespaces 3): None and *| are the same denotation',
    'unprefixed attribute names and |attr both denote "no namespace"',
    'silently ignored edits (logged, no exception, no change) are neither accepted nor rejected and are judged only through the state they leave',
]
MIN_EVENTS = {
    'quick': {'oracle.mapping': 60000, 'oracle.pairs-stable': 60000, 'oracle.reparse-pairs': 60000, 'selectors.compared': 150000, 'rejections': 8000, 'oracle.used-delete': 1500},
    'thorough': {'oracle.mapping': 1500000, 'oracle.pairs-stable': 1500000, 'oracle.reparse-pairs': 1500000, 'selectors.compared': 4000000, 'rejections': 200000, 'oracle.used-delete': 40000},
}

SEEDS = [
    'e1{top:0}',
    '@namespace p "urn:u";p|e1[p|a]{top:0}',
    '@namespace "urn:d";@namespace n1 "urn:n1";e0{top:0}n1|e1, e2 > n1|*, *|e3[n1|a][b], |e4{left:0}',
    '@import "i.css";/*c*/@namespace n1 "urn:n1";@namespace n2 "urn:n2";n1|e1 n2|e2:not(n1|e3){top:0}@media print{n2|m1{top:0}@media tv{n1|m2[n2|a]{left:0}}}',
    '@namespace n1 "urn:n1";@namespace n2 "urn:n1";@namespace "urn:n2";a, n2|b{top:0}',
    '@namespace p "urn:u";@namespace n1 "urn:n1";@media print{p|m1[p|a]{top:0}}n1|e{left:0}',
    '@namespace Q "urn:n1";@namespace q "urn:n2";Q|e1[Q|a], q|e2, Q|*{top:0}',
    '@namespace "urn:d";@namespace n1 "urn:n1";@media print{d1{top:0}@media tv{n1|d2, d3{left:0}}}',
]
PREFIXES = ['', 'n1', 'n2', 'p', 'q', 'Q', 'N1']  # (prefixes are case-sensitive: Q and q, N1 and n1 are different prefixes)
URIS = ['urn:n1', 'urn:n2', 'urn:u', 'urn:d', 'urn:new']
STYLE_TEXTS = ['Q|x10[Q|a], q|x11{top:0}', 'N1|x12, n1|x13, N1|*{top:0}', 'x1{top:0}', 'n1|x2{top:0}', 'n2|x3[n1|a]{top:0}', 'p|x4, q|x5{top:0}', '*|x6, |x7{top:0}', 'x8:not(n2|x9){top:0}', 'zz|x{top:0}', 'x[zz|a]{top:0}']
ANY = -1


def templates():
    out = []
    for p in PREFIXES:
        for u in URIS[:4]:
            out.append(['ns-set', p, u])
            out.append(['add-ns', p, u, False])
        out.append(['ns-del', p])
        out.append(['add-ns', p, 'urn:new', True])
    for i in range(3):
        out.append(['del-nsrule', i])
        for p in ('', 'n1', 'q'):
            out.append(['prefix-set', i, p])
        out.append(['uri-set', i, 'urn:new'])
        out.append(['nsrule-text', i, '@namespace q "urn:n1";'])
        out.append(['nsrule-text', i, '@namespace "urn:n2";'])
    for t in range(len(STYLE_TEXTS)):
        out.append(['add-style', t, 'top'])
    out.append(['add-style', 1, 'media'])
    out.append(['add-style', 3, 'media'])
    for t in (2, 3, 4, 5):
        out.append(['add-style', t, 'media-nested'])
    for t in (0, 1, 2, 3):
        out.append(['add-style', t, 'object-media'])
        out.append(['add-style', t, 'object-media-nested'])
    out.append(['move-rule', 0])
    out.append(['selector-text', 0, 'n1|y, q|z'])
    out.append(['selector-text', 0, 'y[p|a]'])
    out.append(['del-style', 0])
    for i in range(4):
        out.append(['detach', i])
    for how in ('top', 'media', 'via-other-media', 'via-other-top'):
        out.append(['reattach', 0, how])
    out.append(['detached-append', 0, 'n1', 'urn:n2', 'da1'])
    out.append(['detached-append', 0, 'p', 'urn:n1', 'da2'])
    return out


def random_op(rng):
    k = rng.choice(['ns-set', 'ns-set', 'ns-del', 'add-ns', 'add-ns', 'ins-ns', 'del-nsrule', 'prefix-set', 'uri-set', 'nsrule-text', 'add-style', 'add-style',
                    'move-rule', 'selector-text', 'del-style', 'sheet-text', 'detach', 'detach', 'reattach', 'reattach', 'detached-append'])  # fmt: skip
    if k == 'ns-set':
        return [k, rng.choice(PREFIXES), rng.choice(URIS)]
    if k == 'ns-del':
        return [k, rng.choice(PREFIXES)]
    if k == 'add-ns':
        return [k, rng.choice(PREFIXES), rng.choice(URIS), rng.random() < 0.5]
    if k == 'ins-ns':
        return [k, rng.choice(PREFIXES), rng.choice(URIS), rng.randrange(6), rng.random() < 0.5]
    if k == 'del-nsrule':
        return [k, rng.randrange(4)]
    if k == 'prefix-set':
        return [k, rng.randrange(4), rng.choice(PREFIXES + ['1x'])]
    if k == 'uri-set':
        return [k, rng.randrange(4), rng.choice(URIS)]
    if k == 'nsrule-text':
        p = rng.choice(PREFIXES)
        return [k, rng.randrange(4), '@namespace %s"%s";' % (p + ' ' if p else '', rng.choice(URIS))]
    if k == 'add-style':
        return [k, rng.randrange(len(STYLE_TEXTS)), rng.choice(['top', 'top', 'media', 'media-nested', 'object', 'object-media', 'object-media-nested'])]
    if k == 'move-rule':
        return [k, rng.randrange(4)]
    if k == 'selector-text':
        return [k, rng.randrange(4), rng.choice(['n1|y, q|z', 'y[p|a]', '*|y', 'y', 'zz|y', '|y n2|z', 'y:not(p|z)'])]
    if k == 'del-style':
        return [k, rng.randrange(4)]
    if k == 'detach':
        return [k, rng.randrange(6)]
    if k == 'detached-append':
        return [k, rng.randrange(3), rng.choice(['p', 'n1', 'n2', 'q']), rng.choice(['urn:n1', 'urn:n2', 'urn:u', 'urn:q']), rng.choice(['da1', 'da2'])]
    if k == 'reattach':
        return [k, rng.randrange(3), rng.choice(['top', 'media', 'media-nested', 'via-other-media', 'via-other-top'])]
    return [k, rng.choice(SEEDS + ['zz|a{top:0}', '@namespace p "urn:u"; p|a{top:0} q|b{left:0}'])]


# ---------------------------------------------------------------------------------------------------------------------
def norm_uri(u):
    return ANY if u is None else u


def pairs_of(selector):
    out = []
    for item in selector.seq:
        t, v = item.type, item.value
        if t in ('type-selector', 'universal', 'negation-type-selector', 'negation-universal'):
            out.append(('el', norm_uri(v[0]), v[1]) if isinstance(v, tuple) else ('el', ANY, v))
        elif t == 'attribute-selector':
            out.append(('at', norm_uri(v[0]), v[1]) if isinstance(v, tuple) else ('at', '', v))
    return out


def style_rules(sheet):
    out = []

    def rec(rs, depth):
        for r in rs:
            cls = type(r).__name__
            if cls == 'CSSStyleRule':
                out.append(r)
            elif cls == 'CSSMediaRule' and depth < 4:
                rec(r.cssRules, depth + 1)

    rec(sheet.cssRules, 0)
    return out


def rule_pairs(rule):
    return [pairs_of(sel) for sel in rule.selectorList]


def ns_rules(sheet):
    return [r for r in sheet.cssRules if type(r).__name__ == 'CSSNamespaceRule']


def effective(decls):
    """decls: [(prefix, uri)] in sheet order -> mapping {prefix: uri} where the last declaration of a URI wins and a later
    declaration of a prefix hides an earlier one"""
    seen_uri, seen_prefix, out = set(), set(), {}
    for p, u in reversed(decls):
        if u in seen_uri or p in seen_prefix:
            continue
        seen_uri.add(u)
        seen_prefix.add(p)
        out[p] = u
    return out


class NsWalk:
    def __init__(self, ctx, c, raising=True):
        self.ctx, self.c = ctx, c
        self.raising = raising  # False: refusals are logged and silent; the state oracles apply all the same
        self.ops = []
        self.feats = set()
        self.tolerated = set()
        self.detached = []
        self.ambiguous = set()

    def start(self, seed):
        core.canonical_state(self.c)
        self.sheet = self.c.parseString(seed)
        self.case = {'kind': 'nswalk', 'seed': seed, 'ops': self.ops, 'raising': self.raising}
        self.shadow = {}  # id(rule) -> (rule, pairs)
        self.note_rules()

    def note_rules(self):
        live = {}
        for r in style_rules(self.sheet):
            if id(r) in self.shadow and self.shadow[id(r)][0] is r:
                live[id(r)] = self.shadow[id(r)]
            else:
                live[id(r)] = (r, rule_pairs(r))
        self.shadow = live

    def report(self, oracle, detail):
        self.ctx.violation(oracle, dict(self.case, failed_at=len(self.ops) - 1), detail, features=sorted(self.feats))

    def apply(self, op):
        c, sheet = self.c, self.sheet
        css = c.css
        k = op[0]
        c.log.raiseExceptions = self.raising
        try:
            if k == 'ns-set':
                sheet.namespaces[op[1]] = op[2]
            elif k == 'ns-del':
                del sheet.namespaces[op[1]]
            elif k in ('add-ns', 'ins-ns'):
                text = '@namespace %s"%s";' % (op[1] + ' ' if op[1] else '', op[2])
                as_obj = op[-1]
                arg = css.CSSNamespaceRule(prefix=op[1], namespaceURI=op[2]) if as_obj else text
                if k == 'add-ns':
                    sheet.add(arg)
                else:
                    sheet.insertRule(arg, min(op[3], len(sheet.cssRules)))
            elif k in ('del-nsrule', 'prefix-set', 'uri-set', 'nsrule-text'):
                rs = ns_rules(sheet)
                if not rs:
                    return 'skipped', None
                r = rs[op[1] % len(rs)]
                if k == 'del-nsrule':
                    sheet.deleteRule(r)
                elif k == 'prefix-set':
                    r.prefix = op[2]
                elif k == 'uri-set':
                    r.namespaceURI = op[2]
                else:
                    r.cssText = op[2]
            elif k == 'add-style':
                text = STYLE_TEXTS[op[1] % len(STYLE_TEXTS)]
                if op[2] in ('media', 'media-nested'):
                    ms = [r for r in sheet.cssRules if type(r).__name__ == 'CSSMediaRule']
                    if op[2] == 'media-nested':
                        # an @media inside an @media (the text is parsed with the namespaces of the sheet all the same)
                        ms = [n for m in ms for n in m.cssRules if type(n).__name__ == 'CSSMediaRule']
                    if not ms:
                        return 'skipped', None
                    if op[1] % 2:
                        ms[0].insertRule(text, 0)
                    else:
                        ms[0].add(text)
                elif op[2].startswith('object'):
                    # a rule parsed on its own carries its own prefix table; it is put into the sheet, an @media block, or an @media block
                    # inside an @media block (at any depth the URIs it uses must be declared by the sheet)
                    r = css.CSSStyleRule()
                    r.cssText = (text, {'n1': 'urn:n1', 'n2': 'urn:n2', 'p': 'urn:u', 'q': 'urn:q', 'zz': 'urn:zz'})
                    if not r.wellformed:
                        return 'skipped', None  # (log mode: the text was refused silently, there is no rule to insert)
                    cont = sheet
                    if op[2] != 'object':
                        ms = [x for x in sheet.cssRules if type(x).__name__ == 'CSSMediaRule']
                        if op[2] == 'object-media-nested':
                            ms = [n for m in ms for n in m.cssRules if type(n).__name__ == 'CSSMediaRule']
                        if not ms:
                            return 'skipped', None
                        cont = ms[-1]
                    if op[1] % 2:
                        cont.insertRule(r, 0)
                    else:
                        cont.add(r)
                else:
                    sheet.add(text)
            elif k in ('move-rule', 'selector-text', 'del-style'):
                srs = style_rules(sheet)
                if not srs:
                    return 'skipped', None
                r = srs[op[1] % len(srs)]
                if k == 'selector-text':
                    r.selectorText = op[2]
                    self.shadow.pop(id(r), None)
                elif k == 'del-style':
                    (r.parentRule or sheet).deleteRule(r)
                else:
                    if r.parentRule is not None:
                        return 'skipped', None
                    other = c.parseString('@namespace o1 "urn:n1";@namespace o2 "urn:n2";@namespace o3 "urn:u";@namespace o4 "urn:d";@namespace o5 "urn:new";@namespace o6 "urn:q";@namespace o7 "urn:zz";')
                    before = rule_pairs(r)
                    sheet.deleteRule(r)
                    other.add(r)
                    mid = rule_pairs(r)
                    if mid != before:
                        self.report('pairs-stable', {'op': op, 'what': 'pairs changed when the rule was added to another sheet', 'before': before, 'after': mid, 'text': r.cssText})
                    other.deleteRule(r)
                    sheet.add(r)
            elif k == 'detach':
                srs = style_rules(sheet)
                if not srs:
                    return 'skipped', None
                r = srs[op[1] % len(srs)]
                want = rule_pairs(r)
                (r.parentRule or sheet).deleteRule(r)
                self.detached.append((r, want))
                self.shadow.pop(id(r), None)
            elif k == 'detached-append':
                # a selector handed to a detached rule together with its own prefix table: resolved by that table, also when a prefix
                # means something else in what the rule holds already
                if not self.detached:
                    return 'skipped', None
                i = op[1] % len(self.detached)
                r, want = self.detached[i]
                own = dict(r.selectorList._namespaces.items())
                local = '%s%d' % (op[4], len(self.ops))  # (a name of its own: appending an equal selector replaces the old one, which is list business)
                r.selectorList.appendSelector(('%s|%s' % (op[2], local), {op[2]: op[3]}))
                if own.get(op[2], op[3]) != op[3]:
                    self.ambiguous.add(id(r))  # (its text now uses one prefix for two namespaces: only the resolved pairs say what it means)
                self.detached[i] = (r, want + [[('el', norm_uri(op[3]), local)]])
            elif k == 'reattach':
                if not self.detached:
                    return 'skipped', None
                r, want = self.detached[op[1] % len(self.detached)]
                OTHER = '@namespace o1 "urn:n1";@namespace o2 "urn:n2";@namespace o3 "urn:u";@namespace o4 "urn:d";@namespace o5 "urn:new";@namespace o6 "urn:q";@namespace o7 "urn:zz";@media tv{o{top:0}}'
                if op[2].startswith('via-other'):
                    other = c.parseString(OTHER)
                    cont = other.cssRules[-1] if op[2] == 'via-other-media' else other
                    cont.add(r)
                    mid = rule_pairs(r)
                    if mid != want:
                        self.report('pairs-stable', {'op': op, 'what': 'pairs changed when the detached rule was added to another sheet', 'before': want, 'after': mid, 'text': r.cssText})
                    other.namespaces['o9'] = 'urn:n1'
                    cont.deleteRule(r)
                    # still detached
                else:
                    cont = sheet
                    if op[2] in ('media', 'media-nested'):
                        ms = [x for x in sheet.cssRules if type(x).__name__ == 'CSSMediaRule']
                        if op[2] == 'media-nested':
                            ms = [n for m in ms for n in m.cssRules if type(n).__name__ == 'CSSMediaRule']
                        if not ms:
                            return 'skipped', None
                        cont = ms[0]
                    cont.add(r)
                    if r.parentStyleSheet is sheet:
                        self.detached = [(x, w) for x, w in self.detached if x is not r]
                        self.shadow[id(r)] = (r, want)
            elif k == 'sheet-text':
                sheet.cssText = op[1]
            else:
                return 'skipped', None
            return 'ok', None
        except xml.dom.DOMException as e:
            return 'rejected', e
        except Exception as e:
            return 'crash', e

    def step(self, op):
        ctx, sheet = self.ctx, self.sheet
        self.ops.append(op)
        core.canonical_state(self.c)
        decl_before = [(r.prefix, r.namespaceURI) for r in ns_rules(sheet)]
        map_before = effective(decl_before)
        used_before = self.used_uris()
        others_before = [type(r).__name__ for r in sheet.cssRules if type(r).__name__ != 'CSSNamespaceRule']
        ids_before = {id(r) for r in style_rules(sheet)}
        outcome, exc = self.apply(op)
        core.canonical_state(self.c)
        ctx.count('op.' + op[0])
        ctx.count('outcome.' + outcome)
        if not self.raising:
            ctx.count('log-mode.ops')
        if outcome == 'skipped':
            self.ops.pop()
            return True
        if outcome == 'crash':
            self.report('exception', {'op': op, 'tb': core.short_tb(exc)})
            return False
        if outcome == 'rejected':
            ctx.count('rejections')
            ctx.count('rejected.' + type(exc).__name__)
        ok = True
        # ---- mapping == effective rules; one prefix per URI, no prefix twice; rule texts well-formed
        decls = [(r.prefix, r.namespaceURI) for r in ns_rules(sheet)]
        try:
            mapping = {(k or ''): v for k, v in sheet.namespaces.items()}
        except Exception as e:
            self.report('mapping', {'op': op, 'what': 'sheet.namespaces raised', 'tb': core.short_tb(e)})
            return False
        ctx.count('oracle.mapping')
        eff = effective(decls)
        problems = []
        if mapping != eff:
            problems.append('mapping %r != effective declarations %r' % (mapping, eff))
        if len({u for _, u in decls}) != len(decls):
            problems.append('one URI declared by two rules: %r' % (decls,))
        if len({p for p, _ in decls}) != len(decls):
            problems.append('one prefix declared twice: %r' % (decls,))
        for r in ns_rules(sheet):
            try:
                t = r.cssText
                back = self.c.css.CSSNamespaceRule(cssText=t)
                if (back.prefix, back.namespaceURI) != (r.prefix, r.namespaceURI):
                    problems.append('@namespace rule (%r, %r) serialises as %r' % (r.prefix, r.namespaceURI, t))
            except Exception as e:
                problems.append('@namespace rule (%r, %r) does not serialise/parse: %s' % (r.prefix, r.namespaceURI, type(e).__name__))
        if problems:
            self.report('mapping', {'op': op, 'outcome': outcome, 'problems': problems[:3], 'decls_before': decl_before})
            return False
        # ---- the edit did what it says (and nothing else)
        ctx.count('oracle.effect')
        others = [type(r).__name__ for r in sheet.cssRules if type(r).__name__ != 'CSSNamespaceRule']
        eff_problem = None
        if op[0] in ('ns-set', 'ns-del', 'add-ns', 'ins-ns', 'del-nsrule', 'prefix-set', 'uri-set', 'nsrule-text') and others != others_before:
            eff_problem = 'a namespace edit changed the other rules: %r -> %r' % (others_before, others)
        elif op[0] == 'ns-set' and outcome == 'ok' and self.raising and mapping.get(op[1]) != op[2]:
            eff_problem = 'accepted namespaces[%r] = %r but the mapping says %r' % (op[1], op[2], mapping.get(op[1]))
        elif op[0] == 'ns-del' and outcome == 'ok' and self.raising and (op[1] in mapping or op[1] not in map_before):
            eff_problem = 'accepted del namespaces[%r]: before %r, after %r' % (op[1], map_before, mapping)
        elif outcome == 'rejected' and (mapping != map_before or decls != decl_before):
            eff_problem = 'rejected edit changed the declarations: %r -> %r' % (decl_before, decls)
        if eff_problem:
            self.report('effect', {'op': op, 'outcome': outcome, 'problem': eff_problem})
            return False
        # ---- every used URI is declared
        used = self.used_uris()
        declared = set(mapping.values())
        missing = sorted(u for u in used if u not in declared)
        ctx.count('oracle.declared')
        if missing:
            self.report('declared', {'op': op, 'outcome': outcome, 'used_but_not_declared': missing, 'mapping': mapping, 'decls_before': decl_before})
            return False
        # ---- a used namespace cannot be removed
        gone = sorted(u for u in set(map_before.values()) - declared if u in used_before)
        if gone:
            ctx.count('oracle.used-delete')
            # all users of it may have been removed by this very operation (sheet text replaced, rule deleted)
            if any(u in used for u in gone):
                self.report('used-delete', {'op': op, 'outcome': outcome, 'removed_although_used': gone})
                return False
        elif outcome == 'rejected' and op[0] in ('ns-del', 'del-nsrule'):
            ctx.count('oracle.used-delete')
        # ---- undeclared prefix in a new style rule
        if op[0] == 'add-style' and not op[2].startswith('object'):
            text = STYLE_TEXTS[op[1] % len(STYLE_TEXTS)]
            import re

            need = {p for p in re.findall(r'([A-Za-z0-9]+)\|', text)}
            if not (need - set(map_before)):
                # every prefix is declared: the text must be accepted, wherever it is inserted, and resolve like in a sheet of its own
                ctx.count('oracle.insert-resolution')
                if outcome == 'rejected' and type(exc).__name__ == 'NamespaceErr':
                    self.report('insert-resolution', {'op': op, 'text': text, 'what': 'all prefixes are declared but the insertion was refused', 'mapping_before': map_before, 'error': str(exc)[:120]})
                    return False
                if outcome == 'ok':
                    decl = ''.join('@namespace %s"%s";' % ((p + ' ') if p else '', u) for p, u in map_before.items())
                    try:
                        ref = self.c.parseString(decl + text)
                        want = [rule_pairs(r) for r in style_rules(ref)][-1:]
                    except Exception:
                        want = None
                    new = [r for r in style_rules(sheet) if id(r) not in ids_before]
                    if want and new:
                        got = [rule_pairs(new[-1])]
                        if got != want:
                            self.report('insert-resolution', {'op': op, 'text': text, 'resolved': str(got)[:300], 'in_a_sheet_of_its_own': str(want)[:300], 'mapping_before': map_before})
                            return False
            if need - set(map_before):
                ctx.count('oracle.undeclared')
                if outcome == 'ok' and any(text.split('{')[0].replace(' ', '') in r.selectorText.replace(' ', '') for r in style_rules(sheet)):
                    self.report('undeclared', {'op': op, 'text': text, 'mapping_before': map_before})
                    return False
        # ---- pairs stable
        self.note_rules()
        ctx.count('oracle.pairs-stable')
        for rid, (r, want) in self.shadow.items():
            got = rule_pairs(r)
            ctx.count('selectors.compared', len(got))
            if got != want:
                self.report('pairs-stable', {'op': op, 'outcome': outcome, 'selector': r.selectorText, 'before': want, 'after': got})
                return False
        # ---- detached rules keep their meaning and describe it themselves
        for r, want in self.detached:
            ctx.count('oracle.detached')
            got = rule_pairs(r)
            if got != want:
                self.report('pairs-stable', {'op': op, 'what': 'pairs of a detached rule changed', 'selector': r.selectorText, 'before': want, 'after': got})
                return False
            if id(r) in self.ambiguous:
                continue
            try:
                seltext = r.selectorText
                own = dict(r.selectorList._namespaces.items())
                sl = self.c.css.SelectorList()
                sl.selectorText = (seltext, own)
                back = [pairs_of(x) for x in sl]
            except Exception as e:
                self.report('detached-resolve', {'op': op, 'what': 'detached rule does not re-resolve from its own text and namespaces', 'tb': core.short_tb(e), 'want': want})
                return False
            if back != want and not self.tolerated:
                self.report('detached-resolve', {'op': op, 'selector': seltext, 'own_namespaces': own, 'want': str(want)[:300], 'resolved': str(back)[:300]})
                return False
        # ---- what a rule says of itself (read before the sheet is serialised as a whole): resolved with the mapping of now
        rule_level = []
        for r in style_rules(sheet):
            try:
                rule_level.append((r, r.selectorText, rule_pairs(r)))
            except Exception as e:
                self.report('rule-level-text', {'op': op, 'what': 'selectorText raised', 'tb': core.short_tb(e)})
                return False
        # ---- the serialisation re-resolves to the same pairs
        try:
            text = sheet.cssText
        except Exception as e:
            self.report('reparse-pairs', {'op': op, 'what': 'sheet does not serialise', 'tb': core.short_tb(e)})
            return False
        with core.LogCapture(self.c) as cap:
            self.c.log.raiseExceptions = False
            re_sheet = self.c.parseString(text)
        core.canonical_state(self.c)
        ctx.count('oracle.reparse-pairs')
        live = [rule_pairs(r) for r in style_rules(sheet) if r.cssText]
        back = [rule_pairs(r) for r in style_rules(re_sheet)]
        if self.tolerated:
            # a recorded finding was reported for this history already: its (persisting) shape is not reported at every later step
            live, back = self.mask(live, back, mapping)
        if live != back:
            self.feats_for_reparse(map_before, mapping, live, back)
            if self.feats:
                self.tolerated |= self.feats
                self.report('reparse-pairs', {'op': op, 'outcome': outcome, 'text': text.decode('utf-8', 'replace')[:500], 'live': str(live)[:400], 'reparsed': str(back)[:400]})
                self.feats = set()
                return True
            self.report('reparse-pairs', {'op': op, 'outcome': outcome, 'text': text.decode('utf-8', 'replace')[:500], 'live': str(live)[:400], 'reparsed': str(back)[:400],
                                          'log': [m for m in cap.errors()][:3]})  # fmt: skip
            return False
        # rule-level texts (taken above) under the current mapping; only where the sheet-level text was faithful, so that the recorded
        # shapes are not reported a second time
        if live == back and not self.tolerated:
            ctx.count('oracle.rule-level-text')
            for r, seltext, want in rule_level:
                if not seltext:
                    continue
                try:
                    sl = self.c.css.SelectorList()
                    self.c.log.raiseExceptions = True
                    sl.selectorText = (seltext, dict(mapping))
                    got = [pairs_of(x) for x in sl]
                except Exception as e:
                    got = 'does not resolve: %s' % type(e).__name__
                finally:
                    core.canonical_state(self.c)
                if got != want:
                    self.report('rule-level-text', {'op': op, 'selectorText': seltext, 'resolves_to': str(got)[:300], 'rule_holds': str(want)[:300], 'mapping': mapping})
                    return False
        ctx.seen([tuple(sorted(mapping.items())), op[0], outcome])
        return ok

    def mask(self, live, back, mapping):
        flat_l = [p for r in live for s in r for p in s]
        flat_b = [p for r in back for s in r for p in s]
        if len(flat_l) != len(flat_b):
            return live, back
        out = []
        for a, b in zip(flat_l, flat_b):
            if a != b:
                if 'unprefixed-type-selector.default-declared-later' in self.tolerated and a[0] == 'el' and a[1] == ANY and b[1] == '' and a[2] == b[2]:
                    continue
                if 'attribute.uri-is-default-namespace' in self.tolerated and a[0] == 'at' and b[1] == '' and mapping.get('') == a[1] and a[2] == b[2]:
                    continue
                out.append((a, b))
        if not out:
            return [], []
        return live, back

    def feats_for_reparse(self, map_before, mapping, live, back):
        self.feats = set()
        flat_l = [p for r in live for s in r for p in s]
        flat_b = [p for r in back for s in r for p in s]
        if len(flat_l) == len(flat_b):
            diffs = [(a, b) for a, b in zip(flat_l, flat_b) if a != b]
            kinds = set()
            for a, b in diffs:
                if a[0] == 'el' and a[1] == ANY and b[1] == '' and a[2] == b[2] and '' in mapping:
                    kinds.add('unprefixed-type-selector.default-declared-later')
                elif a[0] == 'at' and b[1] == '' and mapping.get('') == a[1] and a[2] == b[2]:
                    kinds.add('attribute.uri-is-default-namespace')
                else:
                    kinds = set()
                    break
            self.feats = kinds

    def used_uris(self):
        out = set()
        for r in style_rules(self.sheet):
            for sel in rule_pairs(r):
                for kind, u, name in sel:
                    if u not in (ANY, ''):
                        out.add(u)
        return out


def run_worker(ctx):
    cssutils, _ = core.import_repo()
    quick = ctx.tier == 'quick'
    tm = templates()
    import itertools

    idx = 0
    depth = 2 if quick else 3
    for seed in SEEDS:
        for L in range(1, depth + 1):
            for combo in itertools.product(tm, repeat=L):
                idx += 1
                if not ctx.mine(idx):
                    continue
                if L == 3 and idx % 5:
                    continue
                w = NsWalk(ctx, cssutils)
                w.start(seed)
                ctx.count('evaluations')
                for op in combo:
                    if not w.step(list(op)):
                        break
    if ctx.k == 0:
        ctx.count('exhaustive.histories-enumerated', idx)
    n = 3000 if quick else 60000
    for i in range(n):
        if not ctx.mine(i):
            continue
        rng = ctx.rng('w', i)
        w = NsWalk(ctx, cssutils, raising=(i % 4 != 3))
        w.start(rng.choice(SEEDS))
        ctx.count('evaluations')
        for _ in range(rng.randint(8, 40)):
            if not w.step(random_op(rng)):
                break
    ctx.sample({'seed': SEEDS[2], 'example_ops': [['ns-set', 'q', 'urn:n1'], ['ns-del', ''], ['add-style', 3, 'top'], ['prefix-set', 0, 'p']]})


def replay(ctx, case):
    cssutils, _ = core.import_repo()
    if case.get('kind') == 'walk':
        # witnesses recorded by the C09 engine
        import random

        w = W.Walk(ctx, cssutils, 'none', random.Random(0))
        w.start(case['seed'])
        ns = NsWalk(ctx, cssutils)
        ns.start(case['seed'])
        for op in case['ops']:
            if not ns.step(list(op)):
                break
        return
    w = NsWalk(ctx, cssutils, raising=case.get('raising', True))
    w.start(case['seed'])
    for op in case['ops']:
        if not w.step(list(op)):
            break
