"""C05 - tokenizer: total, tiling, positions, classification (DESIGN section 6, C05).

Monitors (all evaluated on the real cssutils.tokenize2.Tokenizer from $VERIF_REPO):
  tiling     offsets derived from (line, col) strictly increase, start at 0 (after a BOM) and the spans
             text[o_i:o_{i+1}] cover the text exactly
  value      value_i == independent decoding (models.scan.decode, A1) of span_i
  recover    a text built from a known token sequence with unambiguous separators gives back exactly
             those (type, value) pairs
  eof        full-sheet mode: open comment/string/url( completed, exactly one EOF, and it is last
  total      no exception, CPU-time bound per call
  errpos     position carried by a raised syntax error names a place where the value occurs
"""

import itertools
import re
import xml.dom

from engine import core
from gen import tokens as T
from models.scan import decode, offsets

PROPERTY = 'C05'
LEVEL = 'exploration'
LEVEL_TEXT = (
    'Every tokenisation of ~0.9 M (quick) / ~14 M (thorough) generated texts is judged online by tiling, value, EOF and '
    'construction oracles; short strings are enumerated exhaustively over a 38-symbol alphabet. Held means: no oracle fired on the '
    'executions listed in the evidence file.'
)
LEVEL_NOTE = 'trusted: models/scan.py (A1 escape decoding, 40 lines) and gen/tokens.py (token spellings from the CSS grammar)'
TECHNIQUE = 'runtime monitoring: post-condition oracles on the real tokenizer (tiling/value/EOF) + construction oracle over generated token sequences'
DESIGN_REF = 'DESIGN.md section 6, C05'
RULE = (
    'streams: (A) every string over a 38-symbol alphabet up to length 3 (quick) / 4 (thorough), '
    '(B) random strings to length 40 over that alphabet plus arbitrary code points, (C) token sequences '
    'built from the grammar with unambiguous separators, (D) the same ending in an unterminated '
    'comment/string/url(, (E) every ASCII code point and representatives of every Unicode category as '
    'first character of a token, (F) a bad token planted at a known place of a well-formed sheet parsed '
    'in raising mode.  Each in full-sheet and plain mode.  distinct_nontrivial = distinct token-type '
    'sequences of length >= 2 returned by the real tokenizer.'
)
ASSUMPTIONS = [
    'COMMENT values may equal the span verbatim or with hex escapes decoded (the property is silent)',
    'line/col of the EOF marker itself is not asserted',
    "a leading BOM is zero-width for columns and must be reported once at 1:1",
    'ATKEYWORD values may be raw or decoded',
]
EXHAUSTIVE = {'quick': False, 'thorough': False}
EXHAUSTIVE_NOTE = 'stream A is exhaustive over its alphabet up to the stated length; the other streams are sampled'
MIN_EVENTS = {
    'quick': {'evaluations': 500000, 'oracle.nocomments': 45000, 'oracle.recover': 100000, 'oracle.eof-completion': 10000, 'oracle.errpos': 1000, 'oracle.after-keyword': 20000},
    'thorough': {'evaluations': 8000000, 'oracle.nocomments': 750000, 'oracle.recover': 1500000, 'oracle.eof-completion': 100000, 'oracle.errpos': 10000, 'oracle.after-keyword': 20000},
}

ALPHABET = [
    'a', 'A', 'f', 'u', 'r', 'l', 'e', '1', '0', '5', 'c', ' ', '\n', '\r', '\t', '\f', '\\', '"', "'", '/', '*',
    '(', ')', '{', '}', ';', ':', '.', '-', '+', '@', '#', '%', '!', '<', '>', '=', 'é',
]  # fmt: skip
DECODED = ('DIMENSION', 'IDENT', 'STRING', 'URI', 'HASH', 'FUNCTION', 'INVALID', 'UNICODE-RANGE')
BOMS = ('\xef\xbb\xbf', '\xfe\xff')


_CONT_THEN_NL = re.compile(r'\\\r\\0{0,5}[aA](?![0-9a-fA-F])')


def span_features(span):
    """hostile constructs of a span that known findings are keyed on"""
    feats = []
    if _CONT_THEN_NL.search(span):
        # a line continuation written backslash+CR directly followed by an escape that decodes to LF
        feats.append('string.continuation-cr-then-escaped-lf')
    return feats


def _tok(cssutils):
    from cssutils import tokenize2

    return tokenize2.Tokenizer()


def check_text(ctx, tk, text, fullsheet, stream, expected=None, completion=None):
    """run the real tokenizer on text and apply the tiling/value/eof oracles; returns the tokens"""
    ctx.count('evaluations')
    case = {'kind': 'text', 'text': text, 'fullsheet': fullsheet}
    try:
        with core.cpu_limit(10):
            toks = list(tk.tokenize(text, fullsheet=fullsheet))
    except core.CpuBudgetExceeded:
        ctx.violation('total.cpu-bound', case, {'sig': 'cpu>10s', 'len': len(text)})
        return None
    except Exception as e:
        ctx.violation('total.exception', case, {'tb': core.short_tb(e)}, site=core.raise_site(e))
        return None
    ctx.count('tokens', len(toks))
    # ---- eof
    body = toks
    if fullsheet:
        ctx.count('oracle.eof')
        neof = sum(1 for t in toks if t[0] == 'EOF')
        if neof != 1 or toks[-1][0] != 'EOF':
            ctx.violation('eof.exactly-one-last', case, {'types': [t[0] for t in toks][-6:], 'n_eof': neof})
            return toks
        body = toks[:-1]
    elif any(t[0] == 'EOF' for t in toks):
        ctx.violation('eof.in-plain-mode', case, {'types': [t[0] for t in toks][-6:]})
    # ---- tiling
    ctx.count('oracle.tiling')
    bomlen = 0
    for b in BOMS:
        if text.startswith(b):
            bomlen = len(b)
    starts = offsets(text)
    offs = []
    bad = None
    for i, t in enumerate(body):
        if len(t) != 4:
            bad = ('shape', i, t)
            break
        ty, val, line, col = t
        if not (isinstance(line, int) and isinstance(col, int)) or line < 1 or col < 1 or line > len(starts):
            bad = ('line/col out of range', i, t)
            break
        o = starts[line - 1] + col - 1
        if line == 1 and bomlen and not (i == 0 and ty == 'BOM'):
            o += bomlen
        offs.append(o)
    if bad is None:
        if body and offs[0] != 0:
            bad = ('first token does not start at offset 0', 0, body[0])
        for i in range(1, len(offs)):
            if offs[i] <= offs[i - 1]:
                bad = ('offsets not strictly increasing', i, [body[i - 1], body[i], offs[i - 1], offs[i]])
                break
        if bad is None and offs and offs[-1] >= len(text):
            bad = ('last token starts beyond the text', len(offs) - 1, body[-1])
        if bad is None and not body and text:
            bad = ('no tokens for a non-empty text', 0, None)
    if bad is not None:
        ctx.violation('tiling', case, {'what': bad[0], 'index': bad[1], 'token': bad[2], 'tokens': toks[:12]})
        return toks
    # ---- values against the independent decoding of the span
    ctx.count('oracle.value')
    for i, (ty, val, line, col) in enumerate(body):
        span = text[offs[i] : offs[i + 1] if i + 1 < len(offs) else len(text)]
        last = i == len(body) - 1
        cands = [span]
        if fullsheet and last:
            if ty == 'COMMENT':
                cands.append(span + '*/')
            elif ty == 'STRING' and span[:1] in '"\'':
                cands.append(span + span[0])
            elif ty == 'URI':
                cands += [span + "')", span + '")', span + ')']
        ok = False
        for c in cands:
            if ty in ('STRING', 'INVALID'):
                exp = {decode(c, string=True)}
            elif ty in DECODED:
                exp = {decode(c)}
            elif ty in ('COMMENT', 'ATKEYWORD') or ty.endswith('_SYM'):
                exp = {c, decode(c)}
            else:
                exp = {c}
            if val in exp:
                ok = True
                break
        if not ok:
            feats = span_features(span)
            ctx.violation(
                'value', case,
                {'type': ty, 'value': val, 'span': span, 'expected': decode(span, string=ty in ('STRING', 'INVALID')),
                 'line': line, 'col': col},
                features=feats,
            )  # fmt: skip
            break
    types = tuple(t[0] for t in body)
    if len(types) >= 2:
        ctx.seen('|'.join(types) + ('|F' if fullsheet else ''))
    # ---- construction oracle
    if expected is not None:
        ctx.count('oracle.recover')
        got = [(t[0], t[1]) for t in body]
        ok = len(got) == len(expected)
        if ok:
            for (gty, gval), (ety, etext, eval_) in zip(got, expected):
                if gty != ety:
                    ok = False
                    break
                if eval_ is None:
                    if gval not in (etext, decode(etext)):
                        ok = False
                        break
                elif ety == 'ATKEYWORD' or ety.endswith('_SYM'):
                    if gval not in (etext, decode(etext)):
                        ok = False
                        break
                elif gval != eval_:
                    ok = False
                    break
        if not ok:
            feats = sorted({f for e in expected for f in span_features(e[1])})
            ctx.violation(
                'recover', dict(case, expected=[[e[0], e[1], e[2]] for e in expected]),
                {'got': got[:40], 'expected': [(e[0], e[2] if e[2] is not None else e[1]) for e in expected][:40]},
                features=feats,
            )  # fmt: skip
    if completion is not None and fullsheet:
        ctx.count('oracle.eof-completion')
        ety, evals = completion
        if not body or body[-1][0] != ety or body[-1][1] not in evals:
            ctx.violation(
                'eof.completion', dict(case, completion=[ety, sorted(evals)]),
                {'last': body[-1] if body else None, 'expected_type': ety, 'expected_values': sorted(evals)},
            )  # fmt: skip
    return toks


# ---------------------------------------------------------------------------------------------------
def stream_exhaustive(ctx, tk, maxlen):
    idx = 0
    for n in range(0, maxlen + 1):
        for combo in itertools.product(ALPHABET, repeat=n):
            if ctx.mine(idx):
                text = ''.join(combo)
                check_text(ctx, tk, text, True, 'A')
                check_text(ctx, tk, text, False, 'A')
            idx += 1
    if ctx.k == 0:
        ctx.count('stream.A.strings', idx)


def random_text(rng):
    n = rng.randint(4, 40)
    out = []
    for _ in range(n):
        r = rng.random()
        if r < 0.8:
            out.append(rng.choice(ALPHABET))
        elif r < 0.9:
            out.append(chr(rng.randint(0, 0x7F)))
        elif r < 0.97:
            out.append(chr(rng.choice([rng.randint(0x80, 0x2FF), rng.randint(0x2000, 0x206F), rng.randint(0xFE00, 0xFFFF)])))
        else:
            out.append(chr(rng.randint(0x10000, 0x10FFFF)))
    text = ''.join(out)
    if rng.random() < 0.03:
        text = rng.choice(BOMS) + text
    if rng.random() < 0.05:
        text = '@charset ' + text
    return text


def stream_random(ctx, tk, count):
    for i in range(count):
        if not ctx.mine(i):
            continue
        text = random_text(ctx.rng('B', i))
        if i < 3:
            ctx.sample({'stream': 'B', 'text': text})
        check_text(ctx, tk, text, True, 'B')
        check_text(ctx, tk, text, False, 'B')


def stream_sequences(ctx, tk, count):
    for i in range(count):
        if not ctx.mine(i):
            continue
        rng = ctx.rng('C', i)
        text, toks = T.sequence(rng)
        if i < 4:
            ctx.sample({'stream': 'C', 'text': text, 'expected_types': [t[0] for t in toks]})
        check_text(ctx, tk, text, rng.random() < 0.5, 'C', expected=toks)


def open_endings(rng):
    """(suffix text, expected last token type, set of acceptable values)"""
    r = rng.randrange(4)
    if r == 0:
        body = ''.join(rng.choice('ab *\n/{}"') for _ in range(rng.randint(0, 6))).replace('*/', '* /')
        t = '/*' + body
        return t, 'COMMENT', {t + '*/', decode(t + '*/')}
    if r == 1:
        q = rng.choice('"\'')
        body = T.string_body(rng, q, hostile=rng.random() < 0.5)
        t = q + body
        return t, 'STRING', {decode(t + q, string=True)}
    if r == 2:
        q = rng.choice('"\'')
        body = T.string_body(rng, q, hostile=False)
        w = rng.choice(['', ' '])
        tail = rng.choice(['', q, q + ' '])
        t = rng.choice(URL_NAMES) + w + q + body + tail
        closed = t + ')' if tail else t + q + ')'
        return t, 'URI', {decode(closed), 'url(' + decode(closed).split('(', 1)[1]}
    body = ''.join(rng.choice('abc./:_-') for _ in range(rng.randint(0, 8)))
    t = rng.choice(URL_NAMES) + rng.choice(['', ' ']) + body
    return t, 'URI', {decode(t + ')'), 'url(' + decode(t + ')').split('(', 1)[1]}


# the name of url( in the spellings an identifier may have: letter case, simple and hex escapes
URL_NAMES = ['url(', 'url(', 'URL(', 'Url(', 'u\\rl(', '\\75rl(', 'u\\72 l(', 'ur\\6c(', '\\55 RL(', 'u\\000072l(']


def stream_open(ctx, tk, count):
    for i in range(count):
        if not ctx.mine(i):
            continue
        rng = ctx.rng('D', i)
        if rng.random() < 0.3:
            text, toks = '', []
        else:
            text, toks = T.sequence(rng, maxlen=5)
            sep = rng.choice([' ', '\n', ';', '{'])
            text += sep
            toks = toks + [('S' if sep in ' \n' else 'CHAR', sep, sep)]
            # a separator S directly after an S token would merge: avoid by construction
            if len(toks) >= 2 and toks[-2][0] == 'S' and toks[-1][0] == 'S':
                continue
            if toks[-2][0] == 'CHARSET_SYM' and sep in ' \n':
                pass
        suffix, ety, evals = open_endings(rng)
        if toks and toks[-1][0] == 'CHAR' and toks[-1][1] == '/' and suffix.startswith('*'):
            continue
        full = text + suffix
        if i < 6:
            ctx.sample({'stream': 'D', 'text': full, 'completion': [ety, sorted(evals)]})
        check_text(ctx, tk, full, True, 'D', completion=(ety, evals))


KEYWORD_HEADS = ['@charset', '@import', '@media', '@page', '@namespace', '@font-face', '@variables', '@x', 'url(', 'U+1', '!important', 'a', '1e', '<!--']


def stream_firstchar(ctx, tk):
    import unicodedata

    cps = list(range(0, 0x100))
    seen = set()
    for cp in itertools.chain(range(0x100, 0x3000, 7), range(0x3000, 0x110000, 997)):
        cat = unicodedata.category(chr(cp))
        if cat not in seen or cp % 5 == 0:
            seen.add(cat)
            cps.append(cp)
    cps += [0xFEFF, 0xFFFE, 0xFFFF, 0xD800, 0xDFFF, 0x10FFFF, 0x2028, 0x2029, 0x85]
    for i, cp in enumerate(cps):
        if not ctx.mine(i):
            continue
        c = chr(cp)
        for text in (c, c + 'a', 'a ' + c, c + c, c + ' b', 'x' + c + '1', '1' + c, '"' + c + '"', '\\' + c, '@' + c, '#' + c):
            check_text(ctx, tk, text, True, 'E')
            check_text(ctx, tk, text, False, 'E')
        # round 8: every code point directly after a recognised keyword (what ends '@charset', '@import', 'url(' is decided per character)
        for kw in KEYWORD_HEADS:
            for text in (kw + c, kw + c + '"x";\nb', 'a{}\n' + kw + c + 'b c'):
                ctx.count('oracle.after-keyword')
                check_text(ctx, tk, text, True, 'E')
                check_text(ctx, tk, text, False, 'E')
    if ctx.k == 0:
        ctx.count('stream.E.codepoints', len(cps))


ESCAPE_CPS = [0, 1, 9, 0xA, 0xC, 0xD, 0x1F, 0x20, 0x22, 0x27, 0x28, 0x29, 0x5C, 0x7B, 0x7D, 0x7F, 0x80, 0xA0, 0xFF, 0x100, 0xD7FF, 0xD800, 0xDBFF, 0xDC00, 0xDFFF, 0xE000,
              0xFFFD, 0xFFFE, 0xFFFF, 0x10000, 0x10FFFE, 0x10FFFF, 0x110000, 0x110001, 0x1FFFFF, 0xFFFFFF]  # fmt: skip


def stream_escapes(ctx, tk):
    """hex escapes at the edges of the code space (first/last code point, surrogates, first value that is none) in every digit count,
    letter case and terminator, in every token kind that decodes escapes"""
    idx = 0
    for cp in ESCAPE_CPS:
        hx = '%x' % cp
        spellings = {hx, hx.upper(), hx.rjust(6, '0') if len(hx) <= 6 else hx, hx.rjust(4, '0') if len(hx) <= 4 else hx}
        for sp in sorted(spellings):
            for term in ('', ' ', '\n', '\r\n', '\t', '\f', '  '):
                esc = '\\' + sp + term
                idx += 1
                if not ctx.mine(idx):
                    continue
                ctx.count('stream.F.escapes')
                for text in ('a' + esc + 'b', esc + 'b', esc, '#' + esc + 'b', '#a' + esc, '"' + esc + 'x"', "'x" + esc + "'", '@' + esc + 'x', '@m' + esc, '1' + esc + 'x', '1p' + esc,
                             esc + 'x(', 'f' + esc + '(', 'url(' + esc + 'x)', 'url(x' + esc + ')', 'a{b:' + esc + 'c}', '-' + esc + 'x', esc + '-', 'u' + esc + 'l(x)'):  # fmt: skip
                    check_text(ctx, tk, text, True, 'F')
                    check_text(ctx, tk, text, False, 'F')


# ---- error positions --------------------------------------------------------------------------------
BASE_SHEETS = [
    'a {\n  color: red;\n  margin: 0 1px\n}\n\nb, c > d {\n  top: 1px\n}\n',
    '@media print {\n\ta { left: 0 }\n}\n.x { width: 10% }\n',
    '/* c1 */\n@import "x.css";\n\n\na[b="c"] { content: "q" }\n',
    'a::before, b:hover::after {\n  top: 0\n}\nc[d="e"]::first-line,\n  f:not(.g)::selection { left: 0 }\n',
    '@media tv {\n  x::after { top: 0 }\n}\n@page :first { margin: 0 }\n',
]
BAD = ['$', '~', '}', ')', ']', '@zz', '!', '"s"', '%', '&', '|', '1px', '#',
       # tokens the selector parser joins from several source tokens (their report must still point at the first character)
       ':lang(x)', '::part(x)', ':nth-child(2n)', ':not(a)', '::', ':x:', 'p|q', '*|*', '|a', '.c', '.1', '[a=b]', '[a', ':hover', '::after', 'a(b)', '*']  # fmt: skip


def check_errpos(ctx, cssutils, parser, text, tag=None):
    ctx.count('evaluations')
    core.canonical_state(cssutils)
    try:
        parser.parseString(text)
        ctx.count('errpos.no-error-raised')
        return
    except xml.dom.DOMException as e:
        line, col = getattr(e, 'line', None), getattr(e, 'col', None)
        msg = str(e)
    except Exception as e:
        ctx.count('errpos.other-exception')
        ctx.note('errpos: %s from %r' % (type(e).__name__, text[:60]))
        return
    finally:
        cssutils.log.raiseExceptions = True
    if line is None or col is None:
        ctx.count('errpos.no-position')
        return
    ctx.count('oracle.errpos')
    starts = offsets(text)
    case = {'kind': 'errpos', 'text': text}
    if not (1 <= line <= len(starts)):
        ctx.violation('errpos', case, {'line': line, 'col': col, 'msg': msg, 'what': 'line beyond text'})
        return
    o = starts[line - 1] + col - 1
    # the message ends in [line:col: value]
    tail = '[%s:%s: ' % (line, col)
    k = msg.rfind(tail)
    if k < 0 or not msg.endswith(']'):
        ctx.violation('errpos', case, {'line': line, 'col': col, 'msg': msg, 'what': 'message suffix disagrees with .line/.col'})
        return
    value = msg[k + len(tail) : -1]
    at = text[o : o + max(1, len(value))]
    ok = (value == '' and o <= len(text)) or text.startswith(value, o) or decode(text[o : o + len(value) + 8]).startswith(value)
    if tag:
        ctx.seen(tag)
    if not ok:
        ctx.violation('errpos', case, {'line': line, 'col': col, 'value': value, 'text_at_position': at, 'msg': msg})


def stream_errpos(ctx, count):
    import cssutils

    parser = cssutils.CSSParser(raiseExceptions=True)
    for i in range(count):
        if not ctx.mine(i):
            continue
        rng = ctx.rng('F', i)
        base = rng.choice(BASE_SHEETS)
        pos = rng.randrange(len(base) + 1)
        bad = rng.choice(BAD)
        glue = rng.choice([(' ', ' '), (' ', ' '), ('', ''), ('', ' '), (' ', '')])
        text = base[:pos] + glue[0] + bad + glue[1] + base[pos:]
        check_errpos(ctx, cssutils, parser, text, 'errpos|%s|%d' % (bad, pos))


def check_nocomments(ctx, tk, tk_nc, text, fullsheet):
    """configuration doComments=False: the same tokens without the COMMENT ones; only white space next to a dropped comment may
    merge (runs of S count as one)"""
    ctx.count('oracle.nocomments')
    ctx.count('evaluations')
    case = {'kind': 'nocomments', 'text': text, 'fullsheet': fullsheet}
    try:
        a = list(tk.tokenize(text, fullsheet=fullsheet))
        b = list(tk_nc.tokenize(text, fullsheet=fullsheet))
    except Exception as e:
        ctx.violation('total.exception', case, {'tb': core.short_tb(e)}, site=core.raise_site(e))
        return

    def squash(toks, drop_comments):
        out = []
        for t in toks:
            if drop_comments and t[0] == 'COMMENT':
                continue
            if t[0] == 'S':
                if out and out[-1][0] == 'S':
                    continue
                out.append(('S', ' '))
            else:
                out.append((t[0], t[1]))
        return out

    want, got = squash(a, True), squash(b, False)
    if want != got:
        i = next((k for k in range(min(len(want), len(got))) if want[k] != got[k]), min(len(want), len(got)))
        ctx.violation('nocomments.differs', case, {'at': i, 'with_comments': want[max(0, i - 2) : i + 3], 'doComments_False': got[max(0, i - 2) : i + 3]})


def stream_nocomments(ctx, cssutils, tk, count):
    from cssutils import tokenize2

    tk_nc = tokenize2.Tokenizer(doComments=False)
    pieces = ['a', ' ', '  ', '\n', ',', ':', ';', '{', '}', '>', '[', ']', '(', ')', '/*c*/', '/**/', '"s"', '1px', '#h', '@m', '+', '~', '.c', 'url(x)', 'f(', '!', '*', '|', '=', '~=', '-->', '<!--', '/*open']
    for i in range(count):
        if not ctx.mine(i):
            continue
        rng = ctx.rng('nc', i)
        text = ''.join(rng.choice(pieces) for _ in range(rng.randint(1, 9)))
        check_nocomments(ctx, tk, tk_nc, text, rng.random() < 0.5)


def run_worker(ctx):
    cssutils, _ = core.import_repo()
    tk = _tok(cssutils)
    quick = ctx.tier == 'quick'
    stream_nocomments(ctx, cssutils, tk, 60000 if quick else 1000000)
    stream_exhaustive(ctx, tk, 3 if quick else 4)
    stream_random(ctx, tk, 300000 if quick else 3000000)
    stream_sequences(ctx, tk, 150000 if quick else 2000000)
    stream_open(ctx, tk, 30000 if quick else 400000)
    stream_firstchar(ctx, tk)
    stream_escapes(ctx, tk)
    stream_errpos(ctx, 8000 if quick else 100000)


def replay(ctx, case):
    if case.get('kind') == 'nocomments':
        cssutils, _ = core.import_repo()
        from cssutils import tokenize2

        check_nocomments(ctx, _tok(cssutils), tokenize2.Tokenizer(doComments=False), case['text'], case.get('fullsheet', True))
        return
    _replay_text(ctx, case)


def _replay_text(ctx, case):
    cssutils, _ = core.import_repo()
    tk = _tok(cssutils)
    if case.get('kind') == 'errpos':
        check_errpos(ctx, cssutils, cssutils.CSSParser(raiseExceptions=True), case['text'])
        return
    exp = case.get('expected')
    if exp is not None:
        exp = [tuple(e) for e in exp]
    comp = case.get('completion')
    if comp is not None:
        comp = (comp[0], set(comp[1]))
    check_text(ctx, tk, case['text'], case.get('fullsheet', True), 'replay', expected=exp, completion=comp)
