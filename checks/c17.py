"""C17 - media lists are canonical ordered sets; media queries survive intact (DESIGN section 6, C17; Appendix A5).

Lock-step model of the list (ordered set of queries with the 'all' rule) over edit histories, round trip of the
list text, agreement of length/item/iteration, construction oracle for queries with features, and 'one malformed
query invalidates the list'; stand-alone and owned by @media / @import rules."""

import xml.dom

from engine import core
from gen import sheets as G
from models import projection as P

PROPERTY = 'C17'
LEVEL = 'exploration'
LEVEL_TEXT = (
    'Lock-step reference model (A5) over random histories of appendMedium/deleteMedium/item assignment/mediaText assignment on lists that '
    'are stand-alone, owned by @media and owned by @import; after every step mediaText is reparsed and compared, length/item/iteration are '
    'cross-checked; generated media queries (not/only, 0-3 and-joined features with min-/max- prefixes, length/number/ident values) are '
    'compared with their construction after parse and after serialise+reparse; lists with one malformed member must be rejected whole.'
)
LEVEL_NOTE = 'trusted: the 40-line list model (A5), the query generator of gen/sheets.py and models/projection.p_query'
TECHNIQUE = 'runtime monitoring: reference model in lock-step over edit histories + construction oracle for media queries'
DESIGN_REF = 'DESIGN.md section 6, C17; Appendix A5'
RULE = (
    'histories of 2-10 edits over the ten media types (in three letter cases), generated feature queries and comments; owners: none, @media, '
    '@import; distinct_nontrivial = distinct (owner, model state, operation, outcome) tuples reached'
)
ASSUMPTIONS = ['"handheld" special-casing mentioned in a docstring is not asserted either way', 'feature values outside the documented set are not generated']
MIN_EVENTS = {'quick': {'oracle.query-assign-bad': 2400, 'mode.log': 7000, 'oracle.step': 20000, 'oracle.query-construction': 3000, 'oracle.malformed-rejected': 400, 'rejections': 1500, 'oracle.lend': 1300, 'oracle.owner-reparse': 1500},
              'thorough': {'oracle.query-assign-bad': 60000, 'mode.log': 170000, 'oracle.step': 600000, 'oracle.query-construction': 80000, 'oracle.malformed-rejected': 10000, 'rejections': 40000, 'oracle.lend': 30000, 'oracle.owner-reparse': 35000}}

TYPES = G.MEDIA_TYPES


def simple(q):
    """a bare media type?"""
    return q[0] is None and q[1] is not None and not q[2]


class Model:
    """ordered list of query projections (mod, type, feats); a simple query is a bare media type"""

    def __init__(self):
        self.q = []

    def assign(self, queries):
        out = []
        seen = set()
        for q in queries:
            if simple(q):
                if q[1] == 'all':
                    out = [q]
                    break
                if q[1] in seen:
                    continue
                seen.add(q[1])
            out.append(q)
        self.q = out

    def has_all(self):
        return any(simple(q) and q[1] == 'all' for q in self.q)

    def append(self, q):
        """-> True accepted, False rejected"""
        if self.has_all():
            return False
        if simple(q):
            if q[1] == 'all':
                self.q = [q]
                return True
            self.q = [x for x in self.q if not (simple(x) and x[1] == q[1])]
        self.q.append(q)
        return True

    def delete(self, t):
        for i, x in enumerate(self.q):
            if simple(x) and x[1] == t:
                del self.q[i]
                return True
        return False

    def types(self):
        return [q[1] if simple(q) else None for q in self.q]


def plain_type(s):
    from models.scan import decode

    return decode(s, keep_simple=False).lower()


def spell(rng, t):
    """a media type in one of the spellings CSS allows for an identifier: any letter case, simple escapes of non-hex letters, hex escapes"""
    r = rng.random()
    if r < 0.55:
        return rng.choice([t, t.upper(), t.capitalize()])
    i = rng.randrange(len(t))
    ch = t[i]
    if r < 0.8 and ch not in 'abcdefABCDEF':
        return t[:i] + '\\' + ch + t[i + 1:]
    return t[:i] + '\\%x ' % ord(rng.choice([ch, ch.upper()])) + t[i + 1:]


def rand_query(rng, g):
    r = rng.random()
    if r < 0.6:
        t = rng.choice(TYPES)
        return (None, t, []), spell(rng, t)
    q = g.query()
    if simple(q) or (q[1] is None and not q[2]):
        return (None, q[1] or 'tv', []), q[1] or 'tv'
    import random

    text = G.Renderer(G.style_with(rng.choice(['neutral', 'case', 'ws'])), random.Random(rng.random())).query(q)
    if rng.random() < 0.2:
        # 'and(' without the space: read as the keyword and a parenthesis, not as a function (in any letter case)
        import re

        text = re.sub(r'(?i)\b(and) \(', lambda m: m.group(1) + '(', text)
    return G.Expect([]).query(q), text


def norm(x):
    if isinstance(x, (list, tuple)):
        return [norm(i) for i in x]
    return x


def make_owner(cssutils, owner, text):
    """-> (media list, owner object, sheet)"""
    if owner == 'none':
        return cssutils.stylesheets.MediaList(mediaText=text), None, None
    if owner == 'media':
        sheet = cssutils.parseString('@media %s {a{top:0}}' % text)
        r = sheet.cssRules[0]
        return r.media, r, sheet
    if owner == 'import-late':
        # the rule is parsed without a list (a comment stands before the address) and gets it afterwards
        sheet = cssutils.parseString('@import /*c*/ "x.css";')
        r = sheet.cssRules[0]
        r.media = text
        return r.media, r, sheet
    sheet = cssutils.parseString('@import "x.css" %s;' % text)
    r = sheet.cssRules[0]
    return r.media, r, sheet


def observe(ctx, cssutils, ml, m, case, step, owner_obj):
    ctx.count('oracle.step')
    try:
        got = norm(P.p_media(ml))
        exp = norm(m.q if m.q else [])
        problems = []
        if got != exp:
            problems.append(('queries', got, exp))
        if ml.length != len(m.q):
            problems.append(('length', ml.length, len(m.q)))
        n_iter = sum(1 for _ in ml)
        if n_iter != len(m.q):
            problems.append(('iteration', n_iter, len(m.q)))
        items = [ml.item(i) for i in range(len(m.q) + 1)]
        exp_items = [t for t in m.types()] + [None]
        # (item() gives the medium as it was written: letter case and escapes are spelling)
        if [plain_type(x) if isinstance(x, str) and x else None for x in items] != [t if t else None for t in exp_items]:
            problems.append(('item', items, exp_items))
        text = ml.mediaText
        if not m.q:
            if text.strip().lower() != 'all':
                problems.append(('empty list serialises as all', text, 'all'))
                if '/*' in text:
                    case['features'] = ['empty-list-with-comment']
        else:
            re_ml = cssutils.stylesheets.MediaList(mediaText=text)
            if norm(P.p_media(re_ml)) != exp or re_ml.mediaText != text:
                problems.append(('mediaText reparses to an equal list', [norm(P.p_media(re_ml)), re_ml.mediaText], [exp, text]))
        # with comments switched off, and in the minified preset, the text still says the same list
        for how in ('no-comments', 'minified'):
            try:
                if how == 'no-comments':
                    cssutils.ser.prefs.keepComments = False
                else:
                    cssutils.ser.prefs.useMinified()
                t_alt = ml.mediaText
            finally:
                cssutils.ser.prefs.useDefaults()
            if m.q:
                alt = cssutils.stylesheets.MediaList(mediaText=t_alt)
                if norm(P.p_media(alt)) != exp:
                    problems.append(('mediaText under %s reparses to an equal list' % how, [norm(P.p_media(alt)), t_alt], [exp, text]))
        if owner_obj is not None and owner_obj.media is not ml:
            problems.append(('owner still holds the list', False, True))
    except Exception as e:
        ctx.violation('lockstep.exception-in-observer', dict(case, failed_at=step), {'tb': core.short_tb(e)}, site=core.raise_site(e))
        return False
    if problems:
        feats = case.get('features', [])
        ctx.violation('lockstep', dict(case, failed_at=step), {'first': problems[0][0], 'got': problems[0][1], 'expected': problems[0][2], 'others': [p[0] for p in problems[1:]]}, features=feats)
        return False
    return True


def run_history(ctx, cssutils, rng, ops_in=None, owner_in=None, init_in=None, raising_in=None):
    g = G.Gen(rng)
    owner = owner_in or rng.choice(['none', 'none', 'media', 'media', 'import', 'import', 'import-late'])
    m = Model()
    if init_in is not None:
        init = init_in
    else:
        init = [rand_query(rng, g) for _ in range(rng.randint(1, 3))]
        if rng.random() < 0.2:
            init.insert(rng.randrange(len(init) + 1), ((None, None, 'comment'), '/*c*/'))
    with_comment = any(q[2] == 'comment' for q, t in init)
    parts = []
    for q, t in init:
        if q[2] == 'comment':
            continue
        parts.append(t)
    text = ', '.join(parts)
    if with_comment:
        k = [i for i, (q, t) in enumerate(init) if q[2] == 'comment'][0]
        # a comment before the first query or after one of the queries (comments never replace a comma)
        real = [t for q, t in init if q[2] != 'comment']
        j = min(k, len(real))
        if j == 0:
            text = '/*c*/ ' + ', '.join(real)
        else:
            real[j - 1] = real[j - 1] + ' /*c*/'
            text = ', '.join(real)
    first_real = [q for q, t in init if q[2] != 'comment'][0]
    if owner in ('import', 'import-late') and first_real[1] is None:
        owner = 'media'  # '(' first in an @import media list is a known finding of C02
    ops = []
    # error mode: in log mode a refused edit is reported, not raised, and must leave the list alone all the same
    raising = raising_in if raising_in is not None else (rng.random() < 0.6)
    case = {'kind': 'history', 'owner': owner, 'init': [[norm(q), t] for q, t in init], 'ops': ops, 'raising': raising}
    try:
        core.canonical_state(cssutils)
        ml, owner_obj, sheet = make_owner(cssutils, owner, text)
    except Exception as e:
        ctx.violation('exception', case, {'tb': core.short_tb(e), 'text': text}, site=core.raise_site(e))
        return
    m.assign([q for q, t in init if q[2] != 'comment'])
    if not observe(ctx, cssutils, ml, m, case, -1, owner_obj):
        return
    n = rng.randint(2, 10)
    script = ops_in
    for step in range(len(script) if script is not None else n):
        if script is not None:
            op = script[step]
            k = op[0]
        else:
            k = rng.choice(['append', 'append', 'append', 'delete', 'delete', 'delete-absent', 'assign', 'setitem', 'append-bad', 'assign-bad', 'query-assign-bad', 'query-assign-bad', 'lend'])
            op = [k]
            if k in ('append', 'setitem'):
                q, t = rand_query(rng, g)
                op += [norm(q), t]
                if k == 'setitem':
                    op.append(rng.randrange(max(1, len(m.q))))
            elif k == 'delete':
                present = [t for t in m.types() if t]
                if not present:
                    continue
                t = rng.choice(present)
                op.append(spell(rng, t))
            elif k == 'delete-absent':
                absent = [t for t in TYPES if t not in m.types()]
                op.append(rng.choice(absent))
            elif k == 'assign':
                qs = [rand_query(rng, g) for _ in range(rng.randint(1, 4))]
                op.append([[norm(q), t] for q, t in qs])
            elif k == 'lend':
                op += [rng.choice(['media', 'import']), ', '.join(rand_query(rng, g)[1] for _ in range(rng.randint(1, 2)))]
            elif k == 'append-bad':
                op.append(rng.choice(['3d', 'print and', 'tv (color)', 'x y', '(color', 'print,', 'and (color)', 'nosuchmedium']))
            elif k == 'query-assign-bad':
                op += [rng.randrange(4), rng.choice(['screen, print', 'screen foo', 'tv and (color) print', '3d', 'print and', 'tv $', 'tv,', '(color', 'nosuchmedium x'])]
            elif k == 'assign-bad':
                good = [rand_query(rng, g)[1] for _ in range(rng.randint(1, 2))]
                bad = rng.choice(['3d', 'print and', 'tv (color)', '(color', 'nosuchmedium', 'tv $'])
                parts = good + [bad]
                rng.shuffle(parts)
                op.append(', '.join(parts))
        ops.append(op)
        ctx.count('op.' + k)
        feats = []
        try:
            core.canonical_state(cssutils, raising=raising)
            ctx.count('mode.raising' if raising else 'mode.log')
            outcome = 'ok'
            if k == 'append':
                q = tuple_q(op[1])
                try:
                    r = ml.appendMedium(op[2])
                    accepted = True if raising else (r is not False and r is not None)
                except xml.dom.DOMException:
                    accepted = False
                    ctx.count('rejections')
                exp_acc = m.append(q)
                outcome = 'accepted' if accepted else 'rejected'
                # (in log mode the return value only says whether the new medium was wellformed: the state comparison below decides)
                if raising and accepted != exp_acc:
                    ctx.violation('lockstep.accept-reject', dict(case, failed_at=step), {'op': op, 'accepted': accepted, 'expected_accepted': exp_acc, 'mediaText': ml.mediaText})
                    return
            elif k == 'delete':
                t = plain_type(op[1])
                before_len = ml.length
                try:
                    ml.deleteMedium(op[1])
                    accepted = True if raising else ml.length < before_len
                except xml.dom.DOMException:
                    accepted = False
                    ctx.count('rejections')
                exp_acc = m.delete(t)
                if accepted != exp_acc:
                    import re

                    # (a hex escape in a name handed to the API, not parsed from CSS text, is a recorded finding: the same shape as KF-C10-02)
                    fx = ['api-medium.hex-escape'] if re.search(r'\\[0-9a-fA-F]', op[1]) and exp_acc and not accepted else []
                    ctx.violation('lockstep.accept-reject', dict(case, failed_at=step), {'op': op, 'accepted': accepted, 'expected_accepted': exp_acc, 'mediaText': ml.mediaText}, features=fx)
                    return
            elif k == 'delete-absent':
                before_text = ml.mediaText
                try:
                    ml.deleteMedium(op[1])
                    if raising or ml.mediaText != before_text:
                        ctx.violation('lockstep.accept-reject', dict(case, failed_at=step), {'op': op, 'accepted': True, 'expected_accepted': False, 'mediaText': ml.mediaText})
                        return
                    ctx.count('rejections')
                except xml.dom.DOMException:
                    ctx.count('rejections')
            elif k == 'assign':
                ml.mediaText = ', '.join(t for q, t in op[1])
                m.assign([tuple_q(q) for q, t in op[1]])
            elif k == 'setitem':
                if not m.q:
                    ops.pop()
                    continue
                idx = op[3] % len(m.q)
                q = tuple_q(op[1])
                if with_comment:
                    ops.pop()
                    continue  # index positions with comments in the list are not specified
                ml[idx] = op[2]
                # item assignment replaces the query at that position (duplicates then are a documented TODO: tagged)
                m.q[idx] = q
                types = [x[1] for x in m.q if simple(x)]
                if len(types) != len(set(types)) or (m.has_all() and len(m.q) > 1):
                    case['features'] = ['setitem.creates-duplicate-or-all']
                    # the model cannot say what a non-canonical list should do next: stop this history here
                    observe(ctx, cssutils, ml, m, case, step, owner_obj)
                    return
            elif k == 'lend':
                # another rule is handed this very list object, and afterwards a text of its own: that is an edit of the
                # other rule.  Neither this list nor a list that the other rule held before is edited by it.
                ctx.count('oracle.lend')
                osheet = cssutils.parseString('@media tv, tty {b{left:0}}' if op[1] == 'media' else '@import "y.css" tv, tty;')
                other = osheet.cssRules[0]
                held = other.media
                held_before = (norm(P.p_media(held)), held.mediaText)
                other.media = ml
                if other.media is not ml:
                    ctx.violation('lend', dict(case, failed_at=step), {'op': op, 'what': 'the rule does not hold the list it was given'})
                    return
                other.media = op[2]
                held_after = (norm(P.p_media(held)), held.mediaText)
                if held_after != held_before:
                    ctx.violation('lend', dict(case, failed_at=step), {'op': op, 'what': 'a list the rule held before changed', 'before': held_before, 'after': held_after})
                    return
                if other.media is ml:
                    ctx.violation('lend', dict(case, failed_at=step), {'op': op, 'what': 'a text assigned to the other rule was written into the lent list'})
                    return
                # (the list observed below must read as before: the model is not touched)
            elif k == 'query-assign-bad':
                if not m.q or with_comment:
                    ops.pop()
                    continue
                ctx.count('oracle.query-assign-bad')
                qobj = ml[op[1] % len(m.q)]
                before = ml.mediaText
                qbefore = qobj.mediaText
                try:
                    qobj.mediaText = op[2]
                    rejected = (qobj.mediaText == qbefore) and not raising
                except xml.dom.DOMException:
                    rejected = True
                    ctx.count('rejections')
                if not rejected or ml.mediaText != before or qobj.mediaText != qbefore:
                    ctx.violation('malformed-not-rejected-whole', dict(case, failed_at=step), {'op': op, 'rejected': rejected, 'before': before, 'after': ml.mediaText, 'query_after': qobj.mediaText})
                    return
                # nothing of the refused text may reach the next parse
                core.canonical_state(cssutils)
                probe = cssutils.stylesheets.MediaList('tv, print and (color)')
                style = cssutils.parseStyle('color: red; margin: 0 auto')
                if probe.length != 2 or probe.mediaText != 'tv, print and (color)' or style.cssText != 'color: red;\nmargin: 0 auto':
                    ctx.violation('malformed-leaks-into-next-parse', dict(case, failed_at=step), {'op': op, 'next_list': probe.mediaText, 'next_style': style.cssText})
                    return
            elif k in ('append-bad', 'assign-bad'):
                ctx.count('oracle.malformed-rejected')
                before = ml.mediaText
                try:
                    if k == 'append-bad':
                        r = ml.appendMedium(op[1])
                    else:
                        ml.mediaText = op[1]
                        r = None
                    rejected = (r is False) or (not raising and ml.mediaText == before)
                except xml.dom.DOMException:
                    rejected = True
                    ctx.count('rejections')
                if not rejected or ml.mediaText != before:
                    ctx.violation('malformed-not-rejected-whole', dict(case, failed_at=step), {'op': op, 'rejected': rejected, 'before': before, 'after': ml.mediaText})
                    return
        except Exception as e:
            ctx.violation('exception', dict(case, failed_at=step), {'tb': core.short_tb(e)}, site=core.raise_site(e))
            return
        ctx.seen(['S', owner, repr(m.q)[:80], k, outcome if k == 'append' else ''])
        if not observe(ctx, cssutils, ml, m, case, step, owner_obj):
            return
        if sheet is not None and step == (len(script) if script is not None else n) - 1:
            # the owner rule serialises the list it holds
            try:
                txt = sheet.cssText.decode()
                if ml.mediaText not in txt and m.q and ml.mediaText.lower() != 'all':
                    ctx.violation('owner-serialisation', dict(case, failed_at=step), {'sheet': txt, 'mediaText': ml.mediaText})
                elif m.q and not (owner.startswith('import') and m.q[0][1] is None):
                    # ... and a parse of that text gives the rule the same list back
                    # ('(' first in an @import media list is a known finding of C02: not asked here)
                    ctx.count('oracle.owner-reparse')
                    again = cssutils.parseString(txt)
                    got = norm(P.p_media(again.cssRules[0].media)) if again.cssRules.length and hasattr(again.cssRules[0], 'media') else None
                    if got != norm(m.q):
                        ctx.violation('owner-serialisation', dict(case, failed_at=step), {'sheet': txt, 'reparsed': got, 'expected': norm(m.q)}, features=case.get('features', []))
            except Exception as e:
                ctx.violation('exception', dict(case, failed_at=step), {'tb': core.short_tb(e)}, site=core.raise_site(e))


def tuple_q(q):
    return (q[0], q[1], [(f[0], tuple_v(f[1])) for f in q[2]])


def tuple_v(v):
    if isinstance(v, list):
        return tuple(tuple_v(x) for x in v)
    return v


def query_construction(ctx, cssutils, rng):
    """a generated query in any spelling parses to its construction and survives serialise + reparse"""
    import random

    g = G.Gen(rng)
    q = g.query()
    axis = rng.choice(['neutral', 'ws', 'case', 'comments'])
    text = G.Renderer(G.style_with(axis), random.Random(rng.random())).query(q)
    exp = norm(G.Expect([]).query(q))
    ctx.count('oracle.query-construction')
    ctx.count('evaluations')
    case = {'kind': 'query', 'text': text}
    try:
        core.canonical_state(cssutils)
        mq = cssutils.stylesheets.MediaQuery(text)
        got = norm(P.p_query(mq))
        t1 = mq.mediaText
        mq2 = cssutils.stylesheets.MediaQuery(t1)
        got2 = norm(P.p_query(mq2))
    except Exception as e:
        ctx.violation('query.exception', case, {'tb': core.short_tb(e)}, site=core.raise_site(e))
        return
    if got != exp:
        ctx.violation('query.construction', case, {'got': got, 'expected': exp})
    elif got2 != exp or mq2.mediaText != t1:
        ctx.violation('query.roundtrip', case, {'t1': t1, 'got2': got2, 't2': mq2.mediaText})
    ctx.seen(['Q', repr(exp)[:60]])


def run_worker(ctx):
    cssutils, _ = core.import_repo()
    quick = ctx.tier == 'quick'
    n = 5000 if quick else 120000
    for i in range(n):
        if not ctx.mine(i):
            continue
        ctx.count('evaluations')
        run_history(ctx, cssutils, ctx.rng('h', i))
    n = 4000 if quick else 100000
    for i in range(n):
        if not ctx.mine(i):
            continue
        query_construction(ctx, cssutils, ctx.rng('q', i))
    ctx.sample({'example_history': {'owner': 'media', 'init': 'print, tv and (color)', 'ops': [['append', 'PRINT'], ['delete', 'tv'], ['append', 'all'], ['append', 'tv']]}})


def replay(ctx, case):
    cssutils, _ = core.import_repo()
    import random

    if case.get('kind') == 'history':
        init = [(tuple_q(q) if q[2] != 'comment' else (None, None, 'comment'), t) for q, t in case['init']]
        run_history(ctx, cssutils, random.Random(0), ops_in=[list(o) for o in case['ops']], owner_in=case['owner'], init_in=init, raising_in=case.get('raising', True))
    elif case.get('kind') == 'query':
        mq = cssutils.stylesheets.MediaQuery(case['text'])
        t1 = mq.mediaText
        mq2 = cssutils.stylesheets.MediaQuery(t1)
        if norm(P.p_query(mq2)) != norm(P.p_query(mq)):
            ctx.violation('query.roundtrip', case, {'t1': t1})
