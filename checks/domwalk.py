"""Shared edit-history engine for the DOM properties C09 (structure), C11 (rejected => unchanged) and C15 (namespaces).

A walk applies random public DOM edits to a sheet (and to nested @media / @page rule lists).  Around every edit the
engine takes a snapshot (C11), predicts accept/reject with the top-level order model (A6) where that is decided by
the specification, and afterwards checks the structural invariants of C09.  Which oracles report is chosen by the
calling check through `mode` so that each property's verdict comes from its own check."""

import xml.dom

from engine import core

RULES = {
    'charset': ['@charset "utf-8";', '@charset "ascii";'],
    'import': ['@import "i1.css";', '@import url(i2.css) print;'],
    'namespace': ['@namespace n1 "urn:n1";', '@namespace "urn:dflt";', '@namespace n2 "urn:n2";', '@namespace n1 "urn:other";', '@namespace n3 "urn:n1";'],
    'variables': ['@variables{v1:red}'],
    'media': ['@media print{m1{top:0}}', '@media tv{@media screen{m2{left:0}}}', '@media tty{n1|m3{top:0}}'],
    'page': ['@page :first{margin:1px}', '@page{@top-left{content:"x"}}',
             '@page :left{margin:1cm;@top-left{content:"a"}@top-right{content:"b"}@top-left{color:red;left:0}}'],
    'fontface': ['@font-face{font-family:ff1}'],
    'style': ['s1{top:0}', 's2,s3>s4{left:0;right:0}', 'n1|s5{top:0}', '*|s6{top:0}', 's7[n2|a]{top:0}', 's8:not(n1|s9){top:0}'],
    'comment': ['/*c1*/'],
    'unknown': ['@unk1 x;', '@unk2{y}'],
    'margin': ['@top-left{content:"m"}'],
}
KINDS = sorted(RULES)
SEEDS = [
    '',
    's0{top:0}',
    '/*c0*/@import "i0.css";s0{top:0}',
    '@charset "utf-8";@import "i0.css";@namespace n1 "urn:n1";n1|s0{top:0}@media print{m0{top:0}}',
    '@namespace "urn:dflt";@namespace n2 "urn:n2";s0[n2|a]{top:0}@page{margin:0}/*c0*/',
    '@import "i0.css";@unk0;@namespace n1 "urn:n1";@media tv{n1|m0{top:0}@media print{n1|m9{top:0}}}@font-face{font-family:f0}',
    # round 8: declarations that read a variable nobody has defined yet (an @variables rule that comes and goes shows in them)
    's0{color:var(v1);top:0}@media tv{m0{left:var(v1)}}',
]
LEVEL = {'CSSCharsetRule': 0, 'CSSImportRule': 1, 'CSSNamespaceRule': 2, 'CSSStyleRule': 3, 'CSSMediaRule': 3, 'CSSPageRule': 3, 'CSSFontFaceRule': 3}
KIND_LEVEL = {'charset': 0, 'import': 1, 'namespace': 2, 'style': 3, 'media': 3, 'page': 3, 'fontface': 3}


def type_names(rules):
    return [type(r).__name__ for r in rules]


def structure_problems(cssutils, sheet, removed=()):
    """C09 invariants; returns a list of problem strings"""
    probs = []
    names = type_names(sheet.cssRules)
    if names.count('CSSCharsetRule') > 1 or ('CSSCharsetRule' in names and names[0] != 'CSSCharsetRule'):
        probs.append('charset: more than one or not first: %s' % names)
    lv = [LEVEL[n] for n in names if n in LEVEL]
    if lv != sorted(lv):
        probs.append('order: @import before @namespace before other rules violated: %s' % names)

    def links(rules, parent_rule, depth):
        for r in rules:
            if r.parentStyleSheet is not sheet:
                probs.append('parentStyleSheet of %s at depth %d is %r' % (type(r).__name__, depth, r.parentStyleSheet))
            if r.parentRule is not parent_rule:
                probs.append('parentRule of %s at depth %d is %r' % (type(r).__name__, depth, r.parentRule))
            if r.parent is not parent_rule:
                probs.append('parent of %s at depth %d is %r' % (type(r).__name__, depth, r.parent))
            cls = type(r).__name__
            st = getattr(r, 'style', None)
            if st is not None and cls in ('CSSStyleRule', 'CSSPageRule', 'CSSFontFaceRule', 'MarginRule'):
                if st.parentRule is not r:
                    probs.append('style.parentRule of %s is %r' % (cls, st.parentRule))
                for p in st.getProperties(all=True):
                    if p.parent is not st:
                        probs.append('property.parent of %s in %s is not its declaration block' % (p.name, cls))
                        break
            if cls == 'CSSStyleRule':
                if r.selectorList.parentRule is not r:
                    probs.append('selectorList.parentRule of CSSStyleRule is %r' % (r.selectorList.parentRule,))
                for sel in r.selectorList:
                    if sel.parent is not r.selectorList:
                        probs.append('selector.parent is not its selector list')
                        break
            if cls in ('CSSMediaRule', 'CSSImportRule') and r.media.parentRule is not r:
                probs.append('media.parentRule of %s is %r' % (cls, r.media.parentRule))
            if cls == 'CSSMediaRule':
                inner = type_names(r.cssRules)
                for bad in ('CSSCharsetRule', 'CSSImportRule', 'CSSNamespaceRule', 'CSSFontFaceRule', 'MarginRule', 'CSSVariablesRule'):
                    if bad in inner:
                        probs.append('@media holds a %s' % bad)
                if depth < 3:
                    links(r.cssRules, r, depth + 1)
            elif cls == 'CSSPageRule':
                inner = type_names(r.cssRules)
                if any(n not in ('MarginRule', 'CSSComment') for n in inner):
                    probs.append('@page holds %s' % inner)
                links(r.cssRules, r, depth + 1)

    links(sheet.cssRules, None, 0)
    for obj in removed:
        if getattr(obj, 'parentStyleSheet', None) is not None or getattr(obj, 'parentRule', None) is not None or getattr(obj, 'parent', None) is not None:
            probs.append('removed %s still names a container' % type(obj).__name__)
    return probs[:4]


def reachable_rules(sheet):
    """every rule object reachable from the sheet, at any depth (round 8: whatever an edit makes unreachable - also one the library
    removes on its own, like a superseded @namespace rule - is a removed object and names no container)"""
    out = []

    def walk(rules, depth, container):
        for r in rules:
            out.append((r, container))
            if depth < 5 and getattr(r, 'cssRules', None) is not None:
                walk(r.cssRules, depth + 1, r)

    walk(sheet.cssRules, 0, None)
    return out


def nonempty_types(cssutils, sheet):
    """types of the rules that serialise to something even without their comments (a block holding only a comment is
    written but reparses to an empty rule, which is dropped: a comment matter, not an ordering error)"""
    out = []
    keep = cssutils.ser.prefs.keepComments
    cssutils.ser.prefs.keepComments = False
    try:
        for r in sheet.cssRules:
            if type(r).__name__ == 'CSSComment':
                continue
            try:
                if r.cssText:
                    out.append(type(r).__name__)
            except Exception:
                out.append(type(r).__name__)
    finally:
        cssutils.ser.prefs.keepComments = keep
    return out


def snapshot(sheet):
    """what C11 compares before/after a rejected call"""

    def rules(rs, depth=0):
        out = []
        for r in rs:
            cls = type(r).__name__
            entry = [cls]
            try:
                entry.append(r.cssText)
            except Exception as e:
                entry.append('EXC ' + type(e).__name__)
            if cls == 'CSSStyleRule':
                entry.append([s.selectorText for s in r.selectorList])
                entry.append([(p.name, p.literalname, p.value, p.priority) for p in r.style.getProperties(all=True)])
            elif cls in ('CSSMediaRule',) and depth < 3:
                entry.append(r.media.mediaText)
                entry.append(rules(r.cssRules, depth + 1))
            elif cls == 'CSSPageRule':
                entry.append(r.selectorText)
                entry.append(rules(r.cssRules, depth + 1))
            elif cls == 'CSSImportRule':
                entry.append([r.href, r.media.mediaText, r.name])
            elif cls == 'CSSNamespaceRule':
                entry.append([r.prefix, r.namespaceURI])
            out.append(entry)
        return out

    def links(rs, container, depth=0):
        """who names whom as parent: part of the state a refused call has to leave alone"""
        out = []
        for r in rs:
            row = [getattr(r, 'parentStyleSheet', None) is sheet, getattr(r, 'parentRule', None) is container]
            for attr in ('style', 'selectorList', 'media'):
                o = getattr(r, attr, None)
                if o is not None:
                    row.append(getattr(o, 'parentRule', None) is r)
            st = getattr(r, 'style', None)
            if st is not None:
                try:
                    row.append([p.parent is st for p in st.getProperties(all=True)])
                except Exception as e:
                    row.append('EXC ' + type(e).__name__)
            if type(r).__name__ in ('CSSMediaRule', 'CSSPageRule') and depth < 3:
                row.append(links(r.cssRules, r, depth + 1))
            out.append(row)
        return out

    try:
        ns = sorted((k or '', v) for k, v in sheet.namespaces.items())
    except Exception as e:
        ns = 'EXC ' + type(e).__name__
    try:
        text = sheet.cssText
    except Exception as e:
        text = 'EXC ' + type(e).__name__
    return {'cssText': text, 'rules': rules(sheet.cssRules), 'namespaces': ns, 'encoding': sheet.encoding, 'links': links(sheet.cssRules, None)}


def snap_diff(a, b):
    for k in ('cssText', 'namespaces', 'encoding', 'rules', 'links'):
        if a[k] != b[k]:
            return {'what': k, 'before': str(a[k])[:300], 'after': str(b[k])[:300]}
    return None


def make_rule(cssutils, kind, ti):
    css = cssutils.css
    text = RULES[kind][ti % len(RULES[kind])]
    cls = {'charset': css.CSSCharsetRule, 'import': css.CSSImportRule, 'namespace': css.CSSNamespaceRule, 'variables': css.CSSVariablesRule,
           'media': css.CSSMediaRule, 'page': css.CSSPageRule, 'fontface': css.CSSFontFaceRule, 'style': css.CSSStyleRule,
           'comment': css.CSSComment, 'unknown': css.CSSUnknownRule, 'margin': css.MarginRule}[kind]  # fmt: skip
    r = cls()
    r.cssText = text
    return r


def random_op(rng, sheet, focus=None):
    """one operation as a JSON-able list"""
    n = len(sheet.cssRules)
    kinds = KINDS if focus != 'namespace' else ['namespace', 'namespace', 'style', 'style', 'media', 'import', 'comment']
    k = rng.choice(['insert', 'insert', 'add', 'add', 'delete', 'sheet-text', 'rule-text', 'encoding', 'ns-set', 'ns-del', 'nested-insert', 'nested-delete', 'nested-add', 'insert-list',
                    'decl-set', 'decl-text', 'decl-remove', 'style-replace', 'selector-text', 'media-text']
                   if focus != 'namespace' else ['insert', 'add', 'add', 'delete', 'ns-set', 'ns-set', 'ns-del', 'ns-del', 'nested-add', 'prefix-set', 'uri-set', 'move-rule'])  # fmt: skip
    if k == 'insert':
        return [k, rng.choice(kinds), rng.randrange(6), rng.randint(0, n + 1), rng.random() < 0.4]
    if k == 'add':
        return [k, rng.choice(kinds), rng.randrange(6), rng.random() < 0.4]
    if k == 'delete':
        return [k, rng.randint(-1, n)]
    if k == 'insert-list':
        # a CSSRuleList of 2-3 rule objects, into the sheet or into a nested rule list
        where = 'sheet' if rng.random() < 0.5 else rng.randrange(4)
        members = [[rng.choice(['style', 'style', 'media', 'comment', 'page', 'fontface', 'import', 'unknown', 'margin', 'namespace', 'foreign-ns', 'foreign-ns', 'variables', 'variables']), rng.randrange(6)] for _ in range(rng.randint(2, 3))]
        return [k, where, members, rng.randint(0, n if where == 'sheet' else 2)]
    if k == 'sheet-text':
        return [k, rng.choice(SEEDS + ['s1{top:0} @import "late.css";', 'a{} b{} @namespace late "u";', 'zz|a{top:0}', 's1{top:0}@charset "ascii";'])]
    if k == 'rule-text':
        kind = rng.choice(kinds)
        return [k, rng.randrange(max(1, n)), kind, rng.randrange(6), rng.random() < 0.3]
    if k == 'encoding':
        return [k, rng.choice([None, 'utf-8', 'ascii', 'iso-8859-1', 'no-such-encoding-zz'])]
    if k == 'ns-set':
        return [k, rng.choice(['n1', 'n2', 'n3', '', 'n9']), rng.choice(['urn:n1', 'urn:n2', 'urn:dflt', 'urn:new', 'urn:other'])]
    if k == 'ns-del':
        return [k, rng.choice(['n1', 'n2', 'n3', '', 'n9'])]
    if k in ('nested-insert', 'nested-add'):
        return [k, rng.randrange(4), rng.choice(KINDS), rng.randrange(6), rng.randint(0, 3), rng.random() < 0.4]
    if k == 'nested-delete':
        return [k, rng.randrange(4), rng.randint(0, 3)]
    if k == 'prefix-set':
        return [k, rng.randrange(4), rng.choice(['n1', 'n2', 'n7', ''])]
    if k == 'uri-set':
        return [k, rng.randrange(4), rng.choice(['urn:n1', 'urn:n2', 'urn:new'])]
    if k == 'move-rule':
        return [k, rng.randrange(max(1, n))]
    if k == 'decl-set':
        return [k, rng.randrange(8), rng.choice(DECL_NAMES), rng.choice(DECL_VALUES), rng.choice(['text', 'obj', 'attr'])]
    if k == 'decl-text':
        return [k, rng.randrange(8), rng.choice(DECL_TEXTS)]
    if k == 'decl-remove':
        return [k, rng.randrange(8), rng.choice(DECL_NAMES)]
    if k == 'style-replace':
        return [k, rng.randrange(8), rng.choice(DECL_TEXTS), rng.random() < 0.5]
    if k == 'selector-text':
        return [k, rng.randrange(8), rng.choice(SELECTOR_TEXTS)]
    if k == 'media-text':
        return [k, rng.randrange(4), rng.choice(MEDIA_TEXTS)]
    return ['noop']


DECL_NAMES = ['top', 'left', 'color', 'TOP', 'content', 'margin']
DECL_VALUES = ['1px', 'red', '"s"', '0', ')', '', 'inherit !important']
DECL_TEXTS = ['top:1px;left:2px', '', 'color:red;color:green', 'top:1px;left:)', 'top:1px;}', '/*d*/top:0', 'margin:0 !important']
SELECTOR_TEXTS = ['x', 'x,y>z', 'n1|x', '*|x', 'zz|x', 'x,', '', 'x[n2|a]', 'x{']
MEDIA_TEXTS = ['tv', 'print, screen', 'all and (min-width:1px)', '3d', '', 'tv, all']


def style_owners(sheet):
    out = []

    def rec(rs, depth):
        for r in rs:
            cls = type(r).__name__
            if cls in ('CSSStyleRule', 'CSSPageRule', 'CSSFontFaceRule', 'MarginRule'):
                out.append(r)
            if cls in ('CSSMediaRule', 'CSSPageRule') and depth < 3:
                rec(r.cssRules, depth + 1)

    rec(sheet.cssRules, 0)
    return out


def containers(sheet):
    out = []

    def rec(rs, depth):
        for r in rs:
            if type(r).__name__ in ('CSSMediaRule', 'CSSPageRule'):
                out.append(r)
                if type(r).__name__ == 'CSSMediaRule' and depth < 2:
                    rec(r.cssRules, depth + 1)

    rec(sheet.cssRules, 0)
    return out


def predicted_insert(sheet, kind, index):
    """A6: is insertRule(kind, index) at top level accepted?  None = not decided by this model"""
    names = type_names(sheet.cssRules)
    n = len(names)
    if index < 0 or index > n:
        return False
    if kind == 'margin':
        return None  # cssutils parses margin-rule texts through a temporary sheet, which therefore has to hold them
    if kind == 'variables' or 'CSSVariablesRule' in names:
        return None  # the place of the experimental @variables rule is not part of the stated order
    if kind in ('comment', 'unknown'):
        # allowed anywhere except before @charset; an implementation may refuse more (that keeps the sheet valid)
        return False if (index == 0 and names[:1] == ['CSSCharsetRule']) else None
    if kind == 'charset':
        return index == 0 and 'CSSCharsetRule' not in names
    lvl = KIND_LEVEL[kind]
    before = [LEVEL[x] for x in names[:index] if x in LEVEL]
    after = [LEVEL[x] for x in names[index:] if x in LEVEL]
    ok = all(b <= lvl for b in before) and all(a >= lvl for a in after)
    if index == 0 and names[:1] == ['CSSCharsetRule']:
        ok = False
    return ok


class Walk:
    def __init__(self, ctx, cssutils, mode, rng, focus=None, raising=True):
        self.ctx, self.c, self.mode, self.rng, self.focus = ctx, cssutils, mode, rng, focus
        self.raising = raising  # False: errors are logged, a refused op returns silently (the structure oracles still apply)
        self.removed = []
        self.ops = []

    def start(self, seed_text):
        core.canonical_state(self.c, raising=self.raising)
        self.sheet = self.c.parseString(seed_text)
        self.case = {'kind': 'walk', 'seed': seed_text, 'ops': self.ops, 'focus': self.focus, 'raising': self.raising}

    def report(self, oracle, detail, features=()):
        self.ctx.violation(oracle, dict(self.case, failed_at=len(self.ops) - 1), detail, features=features)

    def apply(self, op):
        """execute one op; returns ('ok'|'rejected'|'skipped'|'crash', exception)"""
        c, sheet = self.c, self.sheet
        k = op[0]
        try:
            if k == 'insert':
                _, kind, ti, index, as_obj = op
                arg = make_rule(c, kind, ti) if as_obj else RULES[kind][ti % len(RULES[kind])]
                sheet.insertRule(arg, index)
            elif k == 'add':
                _, kind, ti, as_obj = op
                arg = make_rule(c, kind, ti) if as_obj else RULES[kind][ti % len(RULES[kind])]
                sheet.add(arg)
            elif k == 'delete':
                idx = op[1]
                target = None
                if -len(sheet.cssRules) <= idx < len(sheet.cssRules):
                    target = sheet.cssRules[idx]
                sheet.deleteRule(idx)
                if target is not None:
                    self.removed.append(target)
            elif k == 'sheet-text':
                old = list(sheet.cssRules)
                sheet.cssText = op[1]
                self.removed.extend(old)
            elif k == 'rule-text':
                _, idx, kind, ti, mismatch = op
                if not len(sheet.cssRules):
                    return 'skipped', None
                r = sheet.cssRules[idx % len(sheet.cssRules)]
                own = {'CSSCharsetRule': 'charset', 'CSSImportRule': 'import', 'CSSNamespaceRule': 'namespace', 'CSSVariablesRule': 'variables', 'CSSMediaRule': 'media',
                       'CSSPageRule': 'page', 'CSSFontFaceRule': 'fontface', 'CSSStyleRule': 'style', 'CSSComment': 'comment', 'CSSUnknownRule': 'unknown'}.get(type(r).__name__)  # fmt: skip
                use = kind if mismatch else own
                if use is None:
                    return 'skipped', None
                kids = list(getattr(r, 'cssRules', None) or [])
                oldstyle = getattr(r, 'style', None)
                r.cssText = RULES[use][ti % len(RULES[use])]
                # what the new text replaced is not part of the rule anymore
                now = list(getattr(r, 'cssRules', None) or [])
                self.removed.extend(x for x in kids[:3] if not any(x is y for y in now))
                if oldstyle is not None and getattr(r, 'style', None) is not oldstyle:
                    self.removed.append(oldstyle)
            elif k == 'insert-list':
                _, where, members, index = op
                if where == 'sheet':
                    target = sheet
                else:
                    cs = containers(sheet)
                    if not cs:
                        return 'skipped', None
                    target = cs[where % len(cs)]
                rl = c.css.CSSRuleList()
                for kind, ti in members:
                    if kind == 'foreign-ns':
                        # a rule resolved in another sheet, using a namespace this sheet may not declare
                        m = c.parseString('@namespace zz "urn:zz";@namespace n1 "urn:n1";zz|q%d, n1|r{top:0}' % ti).cssRules[2]
                    else:
                        m = make_rule(c, kind, ti)
                    rl.insert(len(rl), m)  # (append is disabled on a bare CSSRuleList)
                target.insertRule(rl, min(index, len(target.cssRules)))
            elif k == 'encoding':
                sheet.encoding = op[1]
            elif k == 'ns-set':
                sheet.namespaces[op[1]] = op[2]
            elif k == 'ns-del':
                del sheet.namespaces[op[1]]
            elif k in ('nested-insert', 'nested-add', 'nested-delete'):
                cs = containers(sheet)
                if not cs:
                    return 'skipped', None
                cont = cs[op[1] % len(cs)]
                if k == 'nested-delete':
                    idx = op[2]
                    target = cont.cssRules[idx] if 0 <= idx < len(cont.cssRules) else None
                    cont.deleteRule(idx)
                    if target is not None:
                        self.removed.append(target)
                else:
                    _, ci, kind, ti, index, as_obj = op
                    arg = make_rule(c, kind, ti) if as_obj else RULES[kind][ti % len(RULES[kind])]
                    if k == 'nested-insert':
                        cont.insertRule(arg, min(index, len(cont.cssRules) + 1))
                    else:
                        cont.add(arg)
            elif k in ('decl-set', 'decl-text', 'decl-remove', 'style-replace', 'selector-text'):
                owners = style_owners(sheet)
                if k == 'selector-text':
                    owners = [r for r in owners if type(r).__name__ == 'CSSStyleRule']
                if not owners:
                    return 'skipped', None
                r = owners[op[1] % len(owners)]
                if k == 'decl-set':
                    _, _, name, value, how = op
                    if how == 'obj':
                        r.style.setProperty(c.css.Property(name, value or '0'))
                    elif how == 'attr':
                        r.style[name] = value
                    else:
                        r.style.setProperty(name, value)
                elif k == 'decl-text':
                    old = r.style.getProperties(all=True)
                    r.style.cssText = op[2]
                    self.removed.extend(p for p in old[:2] if all(p is not q for q in r.style.getProperties(all=True)))
                elif k == 'decl-remove':
                    old = r.style.getProperties(op[2], all=True)
                    r.style.removeProperty(op[2])
                    self.removed.extend(p for p in old[:2] if all(p is not q for q in r.style.getProperties(all=True)))
                elif k == 'style-replace':
                    old = r.style
                    r.style = c.css.CSSStyleDeclaration(cssText=op[2]) if op[3] else op[2]
                    if r.style is not old:
                        self.removed.append(old)
                else:
                    r.selectorText = op[2]
            elif k == 'media-text':
                ms = [r for r in sheet.cssRules if type(r).__name__ in ('CSSMediaRule', 'CSSImportRule')]
                if not ms:
                    return 'skipped', None
                r = ms[op[1] % len(ms)]
                old = r.media
                r.media.mediaText = op[2]
            elif k in ('prefix-set', 'uri-set'):
                nsr = [r for r in sheet.cssRules if type(r).__name__ == 'CSSNamespaceRule']
                if not nsr:
                    return 'skipped', None
                r = nsr[op[1] % len(nsr)]
                if k == 'prefix-set':
                    r.prefix = op[2]
                else:
                    r.namespaceURI = op[2]
            elif k == 'move-rule':
                srs = [r for r in sheet.cssRules if type(r).__name__ == 'CSSStyleRule']
                if not srs:
                    return 'skipped', None
                r = srs[op[1] % len(srs)]
                other = c.parseString('@namespace n1 "urn:n1";@namespace n2 "urn:n2";@namespace "urn:dflt";')
                sheet.deleteRule(r)
                other.add(r)
                sheet.add(r)
            else:
                return 'skipped', None
            return 'ok', None
        except xml.dom.DOMException as e:
            return 'rejected', e
        except Exception as e:
            return 'crash', e

    def step(self, op=None):
        ctx = self.ctx
        op = op or random_op(self.rng, self.sheet, self.focus)
        self.ops.append(op)
        core.canonical_state(self.c, raising=self.raising)
        before = snapshot(self.sheet) if self.mode in ('c11', 'all') else None
        pred = None
        if op[0] == 'insert' and self.mode in ('c09', 'all'):
            pred = predicted_insert(self.sheet, op[1], op[3])
            text = RULES[op[1]][op[2] % len(RULES[op[1]])]
            if 'n1|' in text or 'n2|' in text:
                pred = None  # needs the prefix to be declared: namespace business (C15)
            if op[1] == 'namespace':
                pred = None if pred else pred
            if not self.raising:
                pred = None  # a refusal is silent in log mode: only the resulting structure is judged
        names_before = type_names(self.sheet.cssRules)
        reach_before = reachable_rules(self.sheet) if self.mode in ('c09', 'all') else []
        outcome, exc = self.apply(op)
        ctx.count('op.' + op[0])
        ctx.count('outcome.' + outcome)
        if not self.raising:
            ctx.count('log-mode.ops')
        if outcome == 'crash':
            self.report(self.mode_oracle('exception'), {'tb': core.short_tb(exc), 'op': op}, ())
            return False
        if outcome == 'skipped':
            self.ops.pop()
            return True
        if outcome == 'rejected':
            ctx.count('rejections')
            ctx.count('rejected.' + type(exc).__name__)
        # ---- C11: a rejected mutation changes nothing
        if before is not None and outcome == 'rejected':
            ctx.count('oracle.rejected-unchanged')
            d = snap_diff(before, snapshot(self.sheet))
            if d:
                feats = []
                if op[0] == 'sheet-text':
                    feats.append('rejected.sheet-cssText')
                if op[0] == 'rule-text' and 'CSSMediaRule' in names_before:
                    pass
                self.report('rejected-but-changed', dict(d, op=op, exception=type(exc).__name__ + ': ' + str(exc)[:120]), feats)
                return False
        # ---- C09: structure
        if self.mode in ('c09', 'all'):
            ctx.count('oracle.structure')
            # (a rule that went away *with* its container still sits in that container and names it: only what left a container that stayed is judged)
            now = {id(r) for r, _ in reachable_rules(self.sheet)}
            vanished = [r for r, cont in reach_before if id(r) not in now and (cont is None or id(cont) in now)]
            ctx.count('oracle.vanished-objects', len(vanished))
            probs = structure_problems(self.c, self.sheet, self.removed[-6:] + vanished[:8])
            if probs:
                feats = []
                if op[0] == 'add' and op[1] == 'namespace' and 'CSSComment' in names_before:
                    pass
                self.report('structure', {'problems': probs, 'op': op, 'outcome': outcome, 'types': type_names(self.sheet.cssRules)}, feats)
                return False
            if pred is not None:
                ctx.count('oracle.accept-reject')
                if pred != (outcome == 'ok'):
                    self.report('accept-reject', {'op': op, 'predicted_accepted': pred, 'outcome': outcome, 'types_before': names_before,
                                                  'exception': (type(exc).__name__ + ': ' + str(exc)[:100]) if exc else None})
                    return False
            if outcome == 'ok' and op[0] == 'add':
                # relative order of the rules that were there before is unchanged
                after = [r for r in self.sheet.cssRules]
            # reparse loses no rule to an ordering error
            try:
                t = self.sheet.cssText
                re_types = nonempty_types(self.c, self.c.parseString(t))
                mine = nonempty_types(self.c, self.sheet)
                # superseded @namespace declarations are cleaned on parse: that is namespace business (C15), not an ordering error
                # (a margin rule at sheet level is an error for the parser anyway: it only exists there for text insertion into @page)
                re_types = [x for x in re_types if x not in ('CSSNamespaceRule', 'MarginRule')]
                mine = [x for x in mine if x not in ('CSSNamespaceRule', 'MarginRule')]
                if len(re_types) < len(mine):
                    self.report('reparse-loses-rules', {'sheet': mine, 'reparsed': re_types, 'text': t.decode('utf-8', 'replace')[:400], 'op': op})
                    return False
                ctx.count('oracle.reparse')
            except Exception as e:
                self.report(self.mode_oracle('exception'), {'tb': core.short_tb(e), 'op': op, 'stage': 'serialise/reparse'})
                return False
        ctx.seen([self.mode, tuple(type_names(self.sheet.cssRules))[:8], op[0], op[1] if len(op) > 1 and isinstance(op[1], str) else '', outcome])
        return True

    def mode_oracle(self, name):
        return name
