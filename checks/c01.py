"""C01 - parsing is total, bounded, and its output re-parses (DESIGN section 6, C01).

Boundary monitor around cssutils.parseString / parseStyle / CSSParser.parseString in default (non-raising)
mode: no exception (other than UnicodeDecodeError for undecodable bytes), result type, serialise ->
reparse -> serialise without exception, logical-time bound (sys.monitoring step meter), growth rule over
sweep families, CPU-time watchdog for work inside the re engine, C12 sentinels ride along."""

import os
import xml.dom

import time

from engine import core, steps

PROPERTY = 'C01'
LEVEL = 'exploration'
LEVEL_TEXT = (
    'State x token product fuzzing of the three parse entry points (about 70 parser-state prefixes x 90 token kinds x 8 endings, '
    'exhaustive in the thorough tier), random token soups, mutated real-world sheets, depth sweeps to 100 and length sweeps, byte inputs '
    'with BOM/@charset combinations and hostile fetchers; every execution is judged by a boundary monitor (exception, result type, '
    'serialise/reparse chain) and a deterministic step meter against a polynomial bound.'
)
LEVEL_NOTE = 'trusted: sys.monitoring PY_START counts as logical time; bound 20000 + 1500 n + 3 n^2 steps calibrated with >= 10x head room on legitimate families'
TECHNIQUE = 'runtime monitoring: boundary monitor + sys.monitoring logical-time meter over generated hostile inputs and depth/length sweeps'
DESIGN_REF = 'DESIGN.md section 6, C01'
RULE = (
    'streams: (a) parser-state prefix x token x ending product under the 4 parseComments x validate settings, (b) random concatenations of the '
    'fragment alphabet, (c) truncations/mutations of the shipped sheets, (d) depth sweeps to 100 and length sweeps with growth rule, (e) byte inputs '
    'x BOM x @charset x encoding argument, (f) fetchers serving content/None/garbage and acyclic/cyclic import graphs, (g) style-attribute entry '
    'point. distinct_nontrivial = distinct inputs (by hash) that produced at least one rule or declaration or at least one log record'
)
EXHAUSTIVE = {'quick': False, 'thorough': False}
EXHAUSTIVE_NOTE = 'thorough enumerates the prefix x token x ending product completely; everything else is sampled'
ASSUMPTIONS = [
    'exceptions thrown by a user-supplied fetcher propagate by design and are not C01 events',
    'recursion beyond nesting depth 100 is the environment bound named in the property',
    'bytes whose @charset names an encoding Python does not know have no applicable encoding and are not generated as first inputs',
]
MIN_EVENTS = {
    'quick': {'evaluations': 20000, 'oracle.reparse': 15000, 'sweep.families': 20, 'fetcher.cases': 50, 'bytes.cases': 300},
    'thorough': {'evaluations': 600000, 'oracle.reparse': 500000, 'sweep.families': 20, 'fetcher.cases': 500, 'bytes.cases': 3000},
}
WALL_BUDGET = {'quick': 1500, 'thorough': 5 * 3600}

PREFIXES = [
    '', '@charset ', '@charset "x"', 'a', 'a ', 'a[', 'a[b', 'a[b=', 'a:not(', 'a:', 'a::', 'a:f(', 'a{', 'a{b', 'a{b:', 'a{b:c', 'a{b:c ',
    'a{b:c!', 'a{b:c;', 'a{b:f(', 'a{b:f(1,', 'a{b:calc(', 'a{b:calc(1 +', 'a{b:var(', 'a{b:rgb(', 'a{b:rgb(1,', 'a{b:url(', 'a{b:"', 'a{b:#',
    'a{b:1', 'a{b:-', 'a{b:1/', 'a{b:U+', '@media ', '@media print', '@media print{', '@media print{a{', '@media print and (',
    '@media print and (min-width:', '@media print,', '@page', '@page :', '@page{', '@page{@top-left', '@page{@top-left{', '@page{margin:1px;',
    '@import ', '@import "x"', '@import url(x) ', '@namespace ', '@namespace p ', '@variables ', '@variables{', '@variables{a:', '@font-face{',
    '@font-face{src:', '@x ', '@x{', '@x y{a{', '/*', 'a{/*', '<!--', '-->', 'a{}', 'a{b:c}', 'a,', 'a>', 'p|', '*|', 'a{b:c}@import "x";',
    '@namespace p "u";p|a', '@media print{@media screen{', '@media print{@page{', 'a{b:c}<!--', '@import "x";<!--',
    '@variables{x:1;/*c*/', '@variables{x:1;', 'a|*', '*|*', '@namespace p "u";p|*', 'a{color:', 'a{width:', 'a{font-family:', 'a{content:', 'a{background:',
]  # fmt: skip
TOKENS = [
    'x', '-x', '\\41 ', 'é', 'f(', 'url(', 'url(a)', 'url("a")', '"s"', "'s'", '"s', "'s", '1', '-1', '+1', '.5', '1px', '1e3', '50%', '#abc',
    '#1', '#', 'U+1F', '@x', '@import', '@media', '@page', '@namespace', '@charset', '@charset ', '@font-face', '@variables', '@top-left',
    '~=', '|=', '^=', '$=', '*=', '<!--', '-->', ' ', '\n', '/*c*/', '/*', '{', '}', '(', ')', '[', ']', ':', ';', ',', '.', '+', '>', '~',
    '*', '=', '!', '/', '%', '&', '<', '-', '|', '^', '$', '?', '\\', '\x00', '\x7f', '﻿', '!important', 'and', 'not(', 'var(', 'rgb(',
    'hsl(', 'calc(', 'progid:', 'expression(', '"\\', 'important', 'url( ', 'only', 'all', 'x:y', 'x|y',
    '\\a ', '1\\a x', '#fff\\a ', '"\\AA "', '|*', '*|*', 'a|*|*', '||', '\\0 ', '\\d ', 'url(\\a )', '"http://[x"', 'url(http://[x)',
    '1px\\9 ', 'x\\a', '-\\a ', '@\\a ', '#\\a ', 'f\\a (', 'U+\\a ', '"\\a "', "'\\d \\a '", '\\', 'x\\\n',
]  # fmt: skip
ENDINGS = ['', ';', '}', ' x', '{', ')', ';}', '{}', ' y{z:1}']
SETTINGS = [(True, True), (True, False), (False, True), (False, False)]

A, B, C = 20000, 1500, 3


def bound(n):
    return A + B * n + C * n * n


class Monitor:
    def __init__(self, ctx, cssutils):
        self.ctx = ctx
        self.c = cssutils
        self.parsers = {s: cssutils.CSSParser(parseComments=s[0], validate=s[1]) for s in SETTINGS}
        self.meter = steps.METER
        if not self.meter.active:
            self.meter.install()

    @staticmethod
    def known_codec(b):
        import codecs

        from models import css21_detect

        name = css21_detect.detect_final(b)[0]
        try:
            info = codecs.lookup(name)
            # codecs that are no text encodings (rot13, zlib, ...) name no encoding a sheet can be in either
            return '\x00' not in name and getattr(info, '_is_text_encoding', True) and info.name not in ('css', 'undefined', 'idna', 'punycode')
        except (LookupError, ValueError):
            return False

    def run(self, text, setting=(True, True), entry='parseString', stream='', features=(), encoding=None, href=None, fetcher=None,
            steps_out=None, cpu=20, check_steps=True, case_extra=None):
        """one monitored execution: parse -> serialise -> reparse -> serialise"""
        ctx, c = self.ctx, self.c
        ctx.count('evaluations')
        case = {'kind': 'parse', 'entry': entry, 'text': text, 'setting': list(setting), 'encoding': encoding}
        if case_extra:
            case.update(case_extra)
        core.canonical_state(c)
        sent = core.Sentinels(c)
        n = len(text)
        budget = bound(n) * 3 + 100000
        stage = 'parse'
        total = 0
        try:
            with core.cpu_limit(cpu), core.LogCapture(c) as log:
                cpu0 = time.process_time()
                self.meter.start(budget)
                try:
                    if entry == 'parseStyle':
                        obj = self.parsers[setting].parseStyle(text, validate=setting[1])
                        if not isinstance(obj, c.css.CSSStyleDeclaration):
                            ctx.violation('result-type', case, {'type': type(obj).__name__})
                            return None
                    else:
                        p = self.parsers[setting]
                        if fetcher is not None:
                            p.setFetcher(fetcher)
                        try:
                            obj = p.parseString(text, encoding=encoding, href=href)
                        finally:
                            if fetcher is not None:
                                p.setFetcher(None)
                        if not isinstance(obj, c.css.CSSStyleSheet):
                            ctx.violation('result-type', case, {'type': type(obj).__name__})
                            return None
                    stage = 'serialise'
                    out1 = obj.cssText
                    total += self.meter.stop()
                    cpu_used = time.process_time() - cpu0
                    ctx.count('oracle.cpu-rule')
                    if cpu_used > 2.0 + n / 1000.0:
                        # CPU time of this process, not wall clock: independent of machine load; legitimate inputs stay below 15 % of it
                        ctx.violation('cpu-bound', case, {'cpu_s': round(cpu_used, 2), 'allowed_s': round(2.0 + n / 1000.0, 2), 'n': n, 'steps': total}, features=features)
                    if steps_out is not None:
                        steps_out.append(total)
                    if check_steps and total > bound(n):
                        ctx.violation('steps-bound', case, {'steps': total, 'bound': bound(n), 'n': n}, features=features)
                    stage = 'reparse'
                    self.meter.start(bound(len(out1)) * 3 + 100000)
                    if entry == 'parseStyle':
                        obj2 = self.parsers[setting].parseStyle(out1, validate=setting[1])
                    else:
                        obj2 = self.parsers[setting].parseString(out1, href=href)
                    stage = 'reserialise'
                    out2 = obj2.cssText
                    s2 = self.meter.stop()
                    if check_steps and s2 > bound(len(out1)):
                        ctx.violation('steps-bound', dict(case, stage='reparse', out1=out1), {'steps': s2, 'bound': bound(len(out1)), 'n': len(out1)}, features=features)
                    ctx.count('oracle.reparse')
                finally:
                    self.meter.stop()
            nrules = len(obj.cssRules) if hasattr(obj, 'cssRules') else obj.length
            if nrules or log.records:
                ctx.seen(core.h8(text if isinstance(text, str) else text.hex()) )
            ctx.count('log.records', len(log.records))
        except UnicodeDecodeError as e:
            if isinstance(text, bytes) and stage == 'parse':
                ctx.count('bytes.undecodable-raised')
                return None
            ctx.violation('exception.' + stage, case, {'tb': core.short_tb(e)}, features=features, site=core.raise_site(e))
        except (LookupError, ValueError) as e:
            # bytes whose BOM/@charset names no codec Python knows have no applicable encoding (property: "decodable under
            # the encoding that applies"); decided independently with the CSS 2.1 detection model
            if isinstance(text, bytes) and stage == 'parse' and encoding is None and not self.known_codec(text):
                ctx.count('bytes.no-applicable-encoding')
                return None
            ctx.violation('exception.' + stage, case, {'tb': core.short_tb(e)}, features=features, site=core.raise_site(e))
        except steps.StepBudgetExceeded as e:
            ctx.violation('steps-budget', case, {'stage': stage, 'budget': str(e), 'n': n}, features=features)
        except core.CpuBudgetExceeded:
            ctx.violation('cpu-budget', case, {'stage': stage, 'cpu_s': cpu, 'n': n}, features=features)
        except RecursionError as e:
            ctx.violation('recursion.' + stage, case, {'n': n}, features=features, site=core.raise_site(e))
        except Exception as e:
            ctx.violation('exception.' + stage, case, {'tb': core.short_tb(e)}, features=features, site=core.raise_site(e))
        finally:
            d = sent.diff()
            if d:
                # leakage is C12's business; it is recorded here and reported by the C12 check's own workload
                ctx.count('sentinel-diff-observed')
                c.log.raiseExceptions = True
        return None


# ---------------------------------------------------------------------------------------------------
def stream_product(ctx, mon, fraction):
    idx = 0
    for pi, p in enumerate(PREFIXES):
        for ti, t in enumerate(TOKENS):
            for ei, e in enumerate(ENDINGS):
                for si, s in enumerate(SETTINGS):
                    idx += 1
                    if not ctx.mine(idx):
                        continue
                    if fraction < 1.0 and ctx.rng('prod', idx).random() > fraction:
                        continue
                    text = p + t + e
                    mon.run(text, s, stream='a')
                    if idx % 5003 == 0:
                        ctx.sample({'stream': 'product', 'text': text, 'setting': s})
    if ctx.k == 0:
        ctx.count('product.size', idx)


def stream_product2(ctx, mon, count):
    """two hostile tokens after a prefix (sampled)"""
    for i in range(count):
        if not ctx.mine(i):
            continue
        rng = ctx.rng('prod2', i)
        text = rng.choice(PREFIXES) + rng.choice(TOKENS) + rng.choice(['', ' ']) + rng.choice(TOKENS) + rng.choice(ENDINGS)
        mon.run(text, rng.choice(SETTINGS), stream='a2')


def stream_style(ctx, mon, count):
    prefixes = ['', 'b', 'b:', 'b:c', 'b:c ', 'b:c!', 'b:c;', 'b:f(', 'b:calc(', 'b:var(', 'b:rgb(', 'b:url(', 'b:"', 'b:1', 'b:c;d:', '/*', 'b:c;/*x*/', 'b:1px ']
    idx = 0
    for p in prefixes:
        for t in TOKENS:
            for e in ('', ';', '}', ' x', ')', ';d:e'):
                idx += 1
                if not ctx.mine(idx):
                    continue
                if count and ctx.rng('style', idx).random() > count:
                    continue
                mon.run(p + t + e, SETTINGS[idx % 4], entry='parseStyle', stream='g')


def stream_soup(ctx, mon, count):
    alphabet = TOKENS + ['a', 'b', 'color', 'red', '{', '}', ';', ':', ' ', ' ', '(', ')']
    for i in range(count):
        if not ctx.mine(i):
            continue
        rng = ctx.rng('soup', i)
        n = rng.randint(1, 40)
        text = ''.join(rng.choice(alphabet) for _ in range(n))
        mon.run(text, rng.choice(SETTINGS), stream='b')
        if i < 3:
            ctx.sample({'stream': 'soup', 'text': text})


def shipped_sheets():
    d = os.path.join(core.REPO, 'sheets')
    out = []
    for fn in sorted(os.listdir(d)):
        if fn.endswith('.css'):
            with open(os.path.join(d, fn), 'rb') as f:
                out.append((fn, f.read()))
    return out


def stream_shipped(ctx, mon, per_sheet):
    sheets = shipped_sheets()
    for i, (fn, data) in ctx.share(sheets):
        try:
            text = data.decode('utf-8')
        except UnicodeDecodeError:
            text = data.decode('latin-1')
        if len(text) > 20000:
            text = text[:20000]
        rng = ctx.rng('shipped', i)
        mon.run(text, stream='c')
        for j in range(per_sheet):
            r = rng.random()
            if r < 0.4:
                m = text[: rng.randrange(len(text) + 1)]
            elif r < 0.6:
                k = rng.randrange(len(text) + 1)
                m = text[:k] + rng.choice(TOKENS) + text[k:]
            elif r < 0.8:
                a = rng.randrange(len(text) + 1)
                b = min(len(text), a + rng.randint(1, 30))
                m = text[:a] + text[b:]
            else:
                a = rng.randrange(len(text) + 1)
                b = min(len(text), a + rng.randint(1, 30))
                m = text[:b] + text[a:b] + text[b:]
            if len(m) > 6000:
                k = rng.randrange(len(m) - 6000)
                m = m[k : k + 6000]
            mon.run(m, rng.choice(SETTINGS), stream='c')
    # small sheets: every truncation point
    for i, (fn, data) in ctx.share([s for s in sheets if len(s[1]) < 700]):
        text = data.decode('utf-8', 'replace')
        for k in range(len(text)):
            mon.run(text[:k], stream='c')


FAMILIES = {
    # name: (function k -> text, max k, tag)
    'nest.braces': (lambda k: 'a' + '{' * k + 'b:c' + '}' * k, 100),
    'nest.parens': (lambda k: 'a{b:' + '(' * k + '1' + ')' * k + '}', 100),
    'nest.brackets': (lambda k: 'a' + '[' * k + 'b' + ']' * k + '{c:d}', 100),
    'nest.function': (lambda k: 'a{b:' + 'f(' * k + '1' + ')' * k + '}', 100),
    'nest.calc': (lambda k: 'a{b:' + 'calc(1 + ' * k + '1' + ')' * k + '}', 100),
    'nest.not': (lambda k: 'a' + ':not(' * k + 'b' + ')' * k + '{c:d}', 100),
    'nest.media': (lambda k: '@media print{' * k + 'a{b:c}' + '}' * k, 100),
    'nest.unknown': (lambda k: '@x{' * k + 'a{b:c}' + '}' * k, 100),
    'nest.unknown-open': (lambda k: '@x{' * k, 100),
    'nest.function-open': (lambda k: 'a{b:' + 'f(' * k, 100),
    'nest.parens-selector': (lambda k: 'a' + '(' * k + ')' * k + '{b:c}', 100),
    'nest.media-parens': (lambda k: '@media print and ' + '(' * k + 'min-width:1px' + ')' * k + '{a{b:c}}', 100),
    'nest.var': (lambda k: 'a{b:' + 'var(' * k + 'x' + ')' * k + '}', 100),
    'nest.url-function': (lambda k: 'a{b:' + 'f(url(x),' * k + '1' + ')' * k + '}', 100),
    'len.declarations': (lambda k: 'a{' + 'x:1;' * (k * 5) + '}', 100),
    'len.rules': (lambda k: 'a{x:1}' * (k * 3), 100),
    'len.selectors': (lambda k: ','.join(['a.b#c'] * (k * 3)) + '{x:1}', 100),
    'len.compound': (lambda k: 'a' + '.b' * (k * 5) + '{x:1}', 100),
    'len.descendants': (lambda k: ' '.join(['a'] * (k * 5)) + '{x:1}', 100),
    'len.terms': (lambda k: 'a{x:' + '1 ' * (k * 3) + '}', 60),
    'len.commaterms': (lambda k: 'a{x:' + ','.join(['b'] * (k * 3)) + '}', 60),
    'len.imports': (lambda k: '@import "x.css";' * (k * 2), 60),
    'len.namespaces': (lambda k: ''.join('@namespace p%d "u%d";' % (i, i) for i in range(k * 2)), 60),
    'len.comments': (lambda k: '/*c*/' * (k * 10), 100),
    'len.media-queries': (lambda k: '@media ' + ','.join(['print and (min-width:1px)'] * (k * 2)) + '{a{b:c}}', 60),
    'len.garbage': (lambda k: '$%&' * (k * 10), 100),
    'len.unknown-rules': (lambda k: '@x y;' * (k * 5), 100),
    'len.string': (lambda k: 'a{b:"' + 'x' * (k * 50) + '"}', 100),
    'len.ident': (lambda k: 'a{b:' + 'x' * (k * 50) + '}', 100),
    'len.nonascii-font': (lambda k: 'a{font-family:' + 'é' * k + ' 1}', 40),
    'len.escaped-font': (lambda k: 'a{font-family:' + '\\e9 ' * k + ' 1}', 40),
    'len.whitespace': (lambda k: 'a{b:c' + ' ' * (k * 50) + '}', 100),
    'len.string-escapes': (lambda k: 'a{x:"' + '\\AA' * k + '"}', 60),
    'len.string-escapes-open': (lambda k: 'a{x:"' + '\\AA' * k, 60),
    'len.string-escapes-content': (lambda k: 'a{content:"' + '\\AA ' * k + '"}', 60),
    'len.ident-escapes': (lambda k: 'a{x:' + '\\AA ' * k + '}', 60),
    'len.url-escapes': (lambda k: 'a{x:url(' + '\\AA ' * k + ')}', 60),
    'len.selector-escapes': (lambda k: '.' + '\\AA ' * k + '{x:1}', 60),
    'len.page-margins': (lambda k: '@page{' + '@top-left{content:"x"}' * k + '}', 60),
    'len.attr': (lambda k: 'a' + '[b=c]' * (k * 3) + '{x:1}', 100),
    'len.variables': (lambda k: '@variables{' + ''.join('v%d:1;' % i for i in range(k * 3)) + '}', 60),
    'len.not-list': (lambda k: 'a' + ':not(.b)' * (k * 2) + '{x:1}', 100),
    # regular-expression and conversion hazards (time spent inside re/int/float is invisible to the step meter: the CPU rule judges it)
    'len.comment-stars-open': (lambda k: 'a{x:y} /*' + '*' * k + ' x', 100),
    'len.comment-stars-open-decl': (lambda k: 'a{b:c /*' + '*' * k + ' x}', 100),
    'len.comment-stars-closed': (lambda k: '/*' + '*' * k + '/a{x:y}', 100),
    'len.stars': (lambda k: '*' * (k * 10) + '{x:y}', 100),
    'len.slash-stars': (lambda k: '/*/' * k + 'a{x:y}', 100),
    'nest.var-fallback': (lambda k: 'a{b:' + 'var(x,' * k + '1' + ')' * k + '}', 60),
    'nest.var-fallback-open': (lambda k: 'a{b:' + 'var(x,' * k, 60),
    'nest.var-chain': (lambda k: '@variables{' + ''.join('v%d:var(v%d);' % (i, i + 1) for i in range(k)) + 'v%d:1px}a{b:var(v0)}' % k, 60),
    'nest.var-chain-cyclic': (lambda k: '@variables{' + ''.join('v%d:var(v%d);' % (i, (i + 1) % k) for i in range(k)) + '}a{b:var(v0)}', 60),
    'len.digits': (lambda k: 'a{x:' + '9' * (k * 100) + ';y:1}', 60),
    'len.digits-fraction': (lambda k: 'a{x:' + '9' * (k * 10) + '.5;y:1}', 60),
    'len.digits-dimension': (lambda k: 'a{x:' + '9' * (k * 10) + '.5px 1' + '0' * (k * 10) + 'em}', 60),
    'len.fraction-digits': (lambda k: 'a{x:0.' + '0' * (k * 10) + '1}', 60),
    # numbers that take part in arithmetic: colour channels, hue, percentages, calc(), an+b, media features, unicode ranges
    'len.digits-rgb': (lambda k: 'a{color:rgb(' + '9' * (k * 10) + ',0,0);y:1}', 60),
    'len.digits-rgb-percent': (lambda k: 'a{color:rgb(' + '9' * (k * 10) + '%,0%,0%);y:1}', 60),
    'len.digits-rgb-percent-fraction': (lambda k: 'a{color:rgba(' + '9' * (k * 10) + '.5%,0%,0%,' + '9' * (k * 10) + ');y:1}', 60),
    'len.digits-hsl-hue': (lambda k: 'a{color:hsl(' + '9' * (k * 10) + ',10%,10%);y:1}', 60),
    'len.digits-hsl-hue-fraction': (lambda k: 'a{color:hsla(-' + '9' * (k * 10) + '.5,10%,' + '9' * (k * 10) + '%,1);y:1}', 60),
    'len.digits-hsl-sl': (lambda k: 'a{color:hsl(0,' + '9' * (k * 5) + '%,' + '9' * (k * 5) + '%);y:1}', 60),
    'len.digits-hsla-negative': (lambda k: 'a{color:hsla(-' + '9' * (k * 5) + ',' + '9' * (k * 5) + '%,-' + '9' * (k * 5) + '%,' + '9' * (k * 5) + ');y:1}', 60),
    'len.digits-calc': (lambda k: 'a{width:calc(' + '9' * (k * 10) + 'px * ' + '9' * (k * 10) + '.5 / 0)}', 60),
    'len.digits-nth': (lambda k: 'a:nth-child(' + '9' * (k * 10) + 'n+' + '9' * (k * 10) + '){x:1}', 60),
    'len.digits-media': (lambda k: '@media (min-width:' + '9' * (k * 10) + 'px) and (aspect-ratio:' + '9' * (k * 10) + '/' + '9' * (k * 10) + '){a{x:1}}', 60),
    'len.digits-urange': (lambda k: 'a{x:U+' + 'F' * min(k, 12) + '-' + '9' * min(k, 12) + ';y:1}', 30),
    'len.digits-hash': (lambda k: 'a{color:#' + 'f' * k + ';y:1}', 60),
    'len.exponent': (lambda k: 'a{x:1e' + '9' * k + '}', 60),
    # many escapes inside a string/identifier of a *validated* property whose value then fails the profile: a regex that can split the escapes
    # in more than one way backtracks exponentially
    'len.string-escapes-quotes': (lambda k: 'a{quotes:"' + '\\z' * k + '" "a" "b";y:1}', 60),
    'len.string-escapes-content': (lambda k: 'a{content:"' + '\\A ' * k + '" / "alt";y:1}', 60),
    'len.string-escapes-font': (lambda k: "a{font-family:'" + '\\\\' * k + "' 12px;y:1}", 60),
    'len.string-escapes-src': (lambda k: '@font-face{font-family:x;src:url("' + '\\(' * k + '") format("' + '\\"' * k + '") 1}', 60),
    'len.ident-escapes-font': (lambda k: 'a{font-family:' + 'a\\ ' * k + 'b 12px !x;y:1}', 60),
    'len.string-escapes-url': (lambda k: 'a{background-image:url("' + '\\)' * k + '") 1 1 1;y:1}', 60),
    # unterminated strings / urls full of hex escapes, each followed by the white space that may end it
    'len.open-string-hex-escapes': (lambda k: 'a{content:"' + '\\41 ' * k, 100),
    'len.open-string-hex-escapes-tab': (lambda k: "a{content:'" + '\\e9\t\\a ' * k, 100),
    'len.open-url-hex-escapes': (lambda k: 'a{background:url(' + '\\41 ' * k, 100),
    'len.ident-hex-escapes-invalid': (lambda k: 'a' + '\\41 ' * k + '{x:y} b' + '\\62 ' * k + '$', 100),
    'len.backslashes': (lambda k: 'a{x:' + '\\\\' * k + '}', 100),
    'len.backslash-newlines': (lambda k: 'a{x:"' + '\\\n' * k + '"}', 100),
    'len.dashes': (lambda k: 'a{x:' + '-' * (k * 5) + 'b}', 100),
    'len.hash': (lambda k: 'a{x:#' + 'a' * (k * 10) + '}', 100),
    'len.unicode-range': (lambda k: 'a{x:U+' + '?' * k + '}', 100),
    'len.important': (lambda k: 'a{x:1 !' + ' ' * k + 'important}', 100),
    'len.cdo': (lambda k: '<!--' * k + 'a{x:y}' + '-->' * k, 100),
    'len.at-sign': (lambda k: '@' * (k * 5) + 'a{x:y}', 100),
    'len.quote-runs': (lambda k: 'a{x:' + '"\'' * k + '}', 100),
    'len.url-open': (lambda k: 'a{x:url(' + 'a ' * k, 100),
    'len.attr-ops': (lambda k: 'a[b' + '~=' * k + 'c]{x:y}', 100),
}
FAMILY_FEATURES = {
    'len.nonascii-font': ['validation-regex.nonascii-run'],
    'len.escaped-font': ['validation-regex.escape-run'],
    'len.terms': ['value.many-terms'],
    'len.commaterms': ['value.many-terms'],
}


def stream_sweeps(ctx, mon):
    """depth/length sweeps: absolute bound on every member + growth rule steps(k) <= steps(k0) (k/k0)^3 4"""
    fams = sorted(FAMILIES)
    for i, name in ctx.share(fams):
        fn, kmax = FAMILIES[name]
        feats = FAMILY_FEATURES.get(name, [])
        ks = [1, 2, 3, 4, 5, 6, 8, 10, 12, 16, 20, 24, 32, 40, 50, 64, 80, 100]
        ks = [k for k in ks if k <= kmax]
        series = []
        ctx.count('sweep.families')
        stop = False
        for k in ks:
            text = fn(k)
            out = []
            before = sum(ctx.counters[c] for c in ctx.counters if c.startswith('violations.'))
            mon.run(text, stream='d', features=feats + ['sweep.' + name], steps_out=out, cpu=20)
            after = sum(ctx.counters[c] for c in ctx.counters if c.startswith('violations.'))
            if after > before:
                stop = True  # one report per family is enough; larger members would only repeat it
            if out:
                series.append((k, len(text), out[0]))
            if stop:
                break
        ctx.extra.setdefault('sweeps', {})[name] = series[-6:]
        # growth rule
        if len(series) >= 4 and not stop:
            k0, n0, s0 = series[1]
            for k, n, s in series[2:]:
                r = n / n0
                if s > max(s0, 2000) * r**3 * 4:
                    ctx.violation('growth', {'kind': 'sweep', 'family': name, 'k': k}, {'series': series, 'k0': k0, 'at': k}, features=feats + ['sweep.' + name])
                    break


VARIABLE_SHEETS = [
    '@variables{a:var(b);b:var(a)}x{color:var(a)}', '@variables{a:var(a)}x{color:var(a)}', '@variables{a:var(b,var(a))}x{color:var(a);top:var(c,var(a))}',
    '@variables{a:var(b)}@variables{b:var(c)}@variables{c:var(a)}x{margin:var(a) var(b) var(c)}', '@variables{a:calc(var(a) + 1px)}x{width:var(a)}',
    '@variables{a:var(b);b:var(c);c:var(d);d:1px}x{width:calc(var(a) * 2)}', '@variables{A:1px;a:var(A)}x{width:var(a)}', '@variables{a:var(}x{width:var(a)}',
    '@variables{a:}x{width:var(a)}', '@variables{a:1px}x{width:var()}', '@variables{a:1px}x{width:var(a,)}', '@variables{a:1px}x{width:var(a b)}', '@variables{a:var(b) var(b);b:var(a) var(a)}x{m:var(a)}',
    'x{width:var(a)}@variables{a:var(b)}y{width:var(b,var(a))}', '@variables{a:url(var(a))}x{b:var(a)}', '@variables{a:"var(a)"}x{b:var(a)}', '@variables print{a:var(b);b:var(a)}x{b:var(a)}',
    '@media print{@variables{a:var(a)}x{b:var(a)}}', '@variables{a:var(b)}@media print{x{b:var(a,var(b,var(a)))}}', '@variables{\\61:var(a)}x{b:var(\\61)}',
]  # fmt: skip


NAMESPACE_SHEETS = [
    '@namespace p "u1";@namespace \\p "u2";p|a{}', '@namespace p "u1";@namespace P "u2";p|a{}P|b{}', '@namespace p "u1";@namespace p "u2";p|a{}',
    '@namespace "u1";@namespace "u2";a{}', '@namespace p "u1";@namespace q "u1";p|a{}q|b{}', '@namespace p "u1";@namespace \\70  "u2";@media tv{p|a{}}',
    '@namespace p "u";p|a{}@namespace p "v";', '@namespace \\p "u1";p|a{}\\p|b{}', '@namespace p "u1";@namespace q "u2";@namespace p "u2";q|a{}p|b{}',
    '@namespace p "u1";@namespace q "u2";@namespace q "u1";p|a{}q|b{}', '@namespace p "";p|a{}|b{}', '@namespace p "u1";@namespace p "u1";p|a{}',
    '@namespace a "u1";@namespace b "u1";@namespace c "u1";a|x{}b|y{}c|z{}', '@namespace p "u1";@media tv{@media tv{p|a[p|b]{}}}@namespace \\p "u2";',
    '@namespace p "u1";@namespace p\\  "u2";p|a{}', '@namespace p "u1"; @namespace "u1"; p|a{} a{} *|a{}', '@namespace p "u1";@namespace \\P "u2";P|a{}p|a{}\\p|a{}',
]  # fmt: skip


def stream_namespaces(ctx, mon):
    """declarations that repeat a prefix or a URI, in one spelling or several, with selectors using them (the clean-up at the end of a parse
    deletes rules and may refuse to)"""
    cases = [(t, s) for t in NAMESPACE_SHEETS for s in SETTINGS]
    for i, (t, s) in ctx.share(cases):
        ctx.count('namespaces.cases')
        mon.run(t, s, stream='n', features=['namespaces.repeated'])


def stream_variables(ctx, mon):
    """variable definitions that refer to themselves, to each other, to nothing; with and without an imported definition of the same names"""
    cases = [(t, s, imp) for t in VARIABLE_SHEETS for s in SETTINGS for imp in (False, True)]
    for i, (t, s, imp) in ctx.share(cases):
        ctx.count('variables.cases')
        if imp:
            fetcher = lambda url: ('utf-8', b'@variables{a:var(b);b:var(c);c:var(a);d:var(d)}')  # noqa: E731
            mon.run('@import "v.css";' + t, s, stream='v', href='http://h/d/a.css', fetcher=fetcher, features=['variables.imported'], check_steps=False)
        else:
            mon.run(t, s, stream='v', features=['variables'])


def stream_charset_names(ctx, mon):
    """every codec name Python knows (text encodings or not) in an @charset rule of a text and of a byte document"""
    import encodings.aliases

    names = sorted(set(encodings.aliases.aliases.values()) | {'rot13', 'rot_13', 'base64', 'hex', 'zlib', 'bz2', 'uu', 'quopri', 'idna', 'punycode', 'undefined', 'unicode_escape',
                                                              'raw_unicode_escape', 'utf-7', 'utf-8-sig', 'no-such-codec-zz', 'css', 'mbcs', 'oem'})  # fmt: skip
    for i, name in ctx.share(names):
        ctx.count('charset-names.cases')
        feats = ['charset-name']
        try:
            if 'a{'.encode(name) != b'a{':
                feats.append('charset.not-ascii-compatible')
        except Exception:
            feats.append('charset.unusable')
        mon.run('@charset "%s";a{content:"\xe9\u20ac";x:y}' % name, stream='n', features=feats)
        mon.run(('@charset "%s";a{x:y}' % name).encode('ascii'), stream='n', features=['charset-name'])


def stream_bytes(ctx, mon, count):
    import codecs as pycodecs

    texts = ['a{b:c}', 'é{content:"Жя"}', '@charset "utf-8";a{}', '@charset "iso-8859-1";é{}', '', 'a{b:"\U0001f600"}', '@import "x";a{}']
    encs = ['utf-8', 'utf-8-sig', 'utf-16', 'utf-16-le', 'utf-16-be', 'utf-32', 'latin-1', 'koi8-r', 'cp1252', 'ascii', 'shift_jis']
    for i in range(count):
        if not ctx.mine(i):
            continue
        rng = ctx.rng('bytes', i)
        t = rng.choice(texts)
        e = rng.choice(encs)
        try:
            b = t.encode(e)
        except UnicodeEncodeError:
            continue
        r = rng.random()
        if r < 0.2:
            b = rng.choice([pycodecs.BOM_UTF8, pycodecs.BOM_UTF16_LE, pycodecs.BOM_UTF16_BE, pycodecs.BOM_UTF32_LE]) + b
        elif r < 0.3 and b:
            k = rng.randrange(len(b))
            b = b[:k] + bytes([rng.randrange(256)]) + b[k + 1 :]
        elif r < 0.4:
            b = b[: rng.randrange(len(b) + 1)]
        given = rng.choice([None, None, e, 'utf-8', 'latin-1'])
        ctx.count('bytes.cases')
        mon.run(b, rng.choice(SETTINGS), stream='e', encoding=given)


FETCH_GRAPHS = [
    {'a.css': '@import "b.css";a{x:1}', 'b.css': 'b{y:2}'},
    {'a.css': '@import "b.css";a{x:1}', 'b.css': '@import "c.css";b{}', 'c.css': 'c{z:url(i.png)}'},
    {'a.css': '@import "b.css";@import "c.css";', 'b.css': '@import "c.css";', 'c.css': 'c{}'},
    {'a.css': '@import "a.css";a{}'},
    {'a.css': '@import "b.css";a{}', 'b.css': '@import "a.css";b{}'},
    {'a.css': '@import "b.css";', 'b.css': '@import "c.css";', 'c.css': '@import "a.css";c{}'},
]
FETCH_MODES = ['content', 'none', 'nonepair', 'empty-tuple', 'text-instead-of-bytes', 'encoding-none', 'undecodable', 'missing',
               # what a server or a file can answer: a charset nobody knows, a codec that is no text encoding, nothing at all, conflicting hints
               'unknown-http-charset', 'unknown-at-charset', 'non-text-codec', 'empty-bytes', 'bom-against-http', 'charset-name-garbage', 'at-charset-undecodable']  # fmt: skip


def make_fetcher(g, mode, log):
    def fetcher(url):
        log.append(url)
        name = url.rsplit('/', 1)[-1]
        if mode == 'none':
            return None
        if mode == 'nonepair':
            return (None, None)
        if mode == 'empty-tuple':
            return ()
        if mode == 'missing' or name not in g:
            return None
        if mode == 'text-instead-of-bytes':
            return ('utf-8', g[name])
        if mode == 'encoding-none':
            return (None, g[name].encode('utf-8'))
        if mode == 'undecodable':
            return ('utf-8', b'\xff\xfe\xff' + g[name].encode('utf-8'))
        if mode == 'unknown-http-charset':
            return ('x-no-such-charset-zz', g[name].encode('utf-8'))
        if mode == 'unknown-at-charset':
            return (None, b'@charset "x-no-such-charset-zz";' + g[name].encode('utf-8'))
        if mode == 'non-text-codec':
            return (['rot13', 'hex', 'zlib', 'base64', 'undefined', 'idna'][len(log) % 6], g[name].encode('utf-8'))
        if mode == 'empty-bytes':
            return (None, b'')
        if mode == 'bom-against-http':
            return ('ascii', b'\xef\xbb\xbf' + g[name].encode('utf-8') + 'é{}'.encode('utf-8'))
        if mode == 'charset-name-garbage':
            return (['', ' ', 'utf-8\x00', 'utf 8', '"utf-8"', 'é', 'a' * 300][len(log) % 7], g[name].encode('utf-8'))
        if mode == 'at-charset-undecodable':
            return (None, b'@charset "ascii";' + g[name].encode('utf-8') + b'\xe9{}')
        return ('utf-8', g[name].encode('utf-8'))

    return fetcher


def fetch_case(mon, gi, mode, setting):
    g = FETCH_GRAPHS[gi]
    cyclic = gi >= 3
    feats = ['fetcher.mode.' + mode]
    if cyclic and mode in ('content', 'text-instead-of-bytes', 'encoding-none', 'bom-against-http'):
        feats.append('import.cycle')
    if mode == 'empty-tuple':
        feats.append('fetcher.empty-tuple')
    if mode == 'text-instead-of-bytes':
        feats.append('fetcher.text-instead-of-bytes')
    mon.ctx.count('fetcher.cases')
    mon.ctx.count('fetcher.mode.' + mode)
    mon.run(g['a.css'], setting, stream='f', href='http://h/d/a.css', fetcher=make_fetcher(g, mode, []), features=feats, check_steps=False,
            case_extra={'fetch': [gi, mode]})


def stream_fetchers(ctx, mon, count):
    # every (graph, answer mode) pair once, then random settings
    pairs = [(gi, m) for gi in range(len(FETCH_GRAPHS)) for m in FETCH_MODES]
    for i in range(max(count, len(pairs))):
        if not ctx.mine(i):
            continue
        rng = ctx.rng('fetch', i)
        gi, mode = pairs[i] if i < len(pairs) else (rng.randrange(len(FETCH_GRAPHS)), rng.choice(FETCH_MODES))
        fetch_case(mon, gi, mode, rng.choice(SETTINGS))


def run_worker(ctx):
    cssutils, _ = core.import_repo()
    mon = Monitor(ctx, cssutils)
    quick = ctx.tier == 'quick'
    stream_sweeps(ctx, mon)
    stream_charset_names(ctx, mon)
    stream_product(ctx, mon, 0.12 if quick else 1.0)
    stream_product2(ctx, mon, 6000 if quick else 300000)
    stream_style(ctx, mon, 0.3 if quick else 0)
    stream_soup(ctx, mon, 6000 if quick else 300000)
    stream_shipped(ctx, mon, 8 if quick else 300)
    stream_bytes(ctx, mon, 1500 if quick else 40000)
    stream_fetchers(ctx, mon, 300 if quick else 6000)
    stream_variables(ctx, mon)
    stream_namespaces(ctx, mon)
    mon.meter.uninstall()


def replay(ctx, case):
    cssutils, _ = core.import_repo()
    mon = Monitor(ctx, cssutils)
    try:
        if case.get('kind') == 'cycle':
            g = {'a.css': '@import "b.css";a{}', 'b.css': '@import "a.css";b{}'}

            def fetcher(url):
                return ('utf-8', g[url.rsplit('/', 1)[-1]].encode())

            mon.run(g['a.css'], href='http://h/d/a.css', fetcher=fetcher, check_steps=False)
            return
        if case.get('kind') == 'sweep':
            fn, kmax = FAMILIES[case['family']]
            text = fn(case['k'])
            out = []
            mon.run(text, steps_out=out, features=FAMILY_FEATURES.get(case['family'], []) + ['sweep.' + case['family']])
            return
        feats = case.get('features', ())
        if case.get('fetch'):
            fetch_case(mon, case['fetch'][0], case['fetch'][1], tuple(case.get('setting', (True, True))))
            return
        mon.run(case['text'], tuple(case.get('setting', (True, True))), entry=case.get('entry', 'parseString'), encoding=case.get('encoding'), features=feats)
    finally:
        mon.meter.uninstall()
