"""C14 - the profile registry's verdicts depend on its contents, not its history (DESIGN section 6, C14).

Differential monitor: after every registry operation the long-lived Profiles instance is compared with a fresh
instance brought to the same contents in the same order; plus the algebraic laws of the property (add+remove restores,
valid <=> some registered profile accepts, default profiles only change the matched profile, unknown removal rejected)."""

from engine import core

PROPERTY = 'C14'
LEVEL = 'exploration'
LEVEL_TEXT = (
    'Random histories of addProfile/addProfiles/removeProfile/removeProfile(all)/defaultProfiles over 8 custom profiles that add '
    'properties, redefine existing ones and define macros shadowing token macros, general macros, macros of built-in profiles and of each '
    'other; after every operation a verdict vector (battery of 200 name/value pairs through validate and validateWithProfile), knownNames, '
    'profiles and propertiesByProfile are compared with a freshly reconstructed registry.'
)
LEVEL_NOTE = 'trusted: reconstruction from the raw property/macro tables exported by cssutils.profiles (properties, macros dicts)'
TECHNIQUE = 'runtime monitoring: differential lock-step (long-lived registry vs reconstruction from contents) + algebraic laws after every operation'
DESIGN_REF = 'DESIGN.md section 6, C14'
RULE = (
    'histories of 2-12 operations; distinct_nontrivial = distinct (set of registered custom profiles, registered built-ins pattern, default '
    'profile restriction, operation) tuples reached'
)
ASSUMPTIONS = ['re-adding a name that is still registered and defaultProfiles naming an unregistered profile are API misuse and not generated']
MIN_EVENTS = {'quick': {'oracle.validate-agrees': 800000, 'oracle.step': 2500, 'oracle.add-remove-restores': 250, 'oracle.unknown-removal': 150, 'histories': 500, 'oracle.blind-replacement': 500, 'oracle.default-as-string': 120, 'oracle.refused-add': 100},
              'thorough': {'oracle.validate-agrees': 15000000, 'oracle.step': 60000, 'oracle.add-remove-restores': 6000, 'oracle.unknown-removal': 4000, 'histories': 12000, 'oracle.blind-replacement': 12000, 'oracle.default-as-string': 2500, 'oracle.refused-add': 2000}}

CUSTOM = {
    'P1': ({'x-one': '{int}|a|b'}, None),
    'P2': ({'color': 'red|{x-mycolor}', 'x-two': '{x-mycolor}'}, {'x-mycolor': 'foo|bar'}),
    'P3': ({'x-three': '{int}'}, {'int': '[1-3]'}),
    'P4': ({'x-col': '{color}'}, {'color': 'black|white'}),
    'P5': ({'x-bs': '{border-style}'}, {'border-style': 'wavy'}),
    'P6': ({'x-p6': '{x-mycolor}'}, {'x-mycolor': 'baz'}),
    'P7': ({'x-fn': 'yes|{ident}x'}, {'ident': 'q'}),
    'P8': ({'font-size': '{absolute-size}|huge', 'x-eight': '{absolute-size}'}, {'absolute-size': 'tiny'}),
    # validation functions instead of expressions; the one for x-one (also defined by P1) and for color raises on most values
    # round 8: a profile whose *name* contains another profile's name (as 'CSS Fonts Module Level 3 @font-face properties' contains 'CSS Fonts Module Level 3')
    'P10': ({'x-ten': 'ten|{int}'}, None),
    'P9': ({'x-one': lambda v: int(v) > 3, 'x-nine': lambda v: v in ('yes', 'qx'), 'color': lambda v: {'foo': True, 'red': False}[v]}, None),
}
NAMES = ['color', 'z-index', 'border-top-style', 'outline-style', 'font-size', 'font', 'width', 'display', 'x-one', 'x-two', 'x-three', 'x-col', 'x-bs',
         'x-p6', 'x-fn', 'x-eight', 'x-nine', 'nosuchprop', 'margin-top', 'opacity', 'src']  # fmt: skip
VALUES = ['red', 'foo', 'baz', 'black', '1', '5', 'wavy', 'solid', 'yes', 'qx', '1px', 'block', 'large', 'tiny', 'huge', 'inherit', '0.5', 'a', 'rgba(1, 2, 3, 0.5)', 'url(x)']
BATTERY = [(n, v) for n in NAMES for v in VALUES if (len(n) + len(v)) % 2 == 0 or n.startswith('x-')]
# properties only 'CSS Fonts Module Level 3' defines (its name is part of the @font-face profile's name), and one only P10 defines
BATTERY += [('font-size-adjust', '0.5'), ('font-size-adjust', 'none'), ('font-size-adjust', 'red'), ('font-stretch', 'condensed'), ('font-stretch', '1'), ('x-ten', 'ten'), ('x-ten', '7'), ('x-ten', 'a')]


BROKEN = [({'x-br': '{nomacro}'}, None), ({'x-br': 'a|{nomacro}', 'x-ok': 'b'}, {'x-mine': 'q'}), ({'x-br': '{int}|{nomacro}'}, {'int': 'q'}),
          ({'x-br': '{x-mycolor}|{nomacro}'}, {'x-mycolor': 'zz'}), ({'color': '{nomacro}'}, None)]


def signature(reg):
    vec = []
    for n, v in BATTERY:
        try:
            a = bool(reg.validate(n, v))
        except Exception as e:
            a = 'EXC:' + type(e).__name__
        try:
            r = reg.validateWithProfile(n, v)
            b = (bool(r[0]), bool(r[1]), tuple(r[2]) if isinstance(r[2], (list, tuple)) else r[2])
        except Exception as e:
            b = 'EXC:' + type(e).__name__
        vec.append((a, b))
    try:
        pbp = list(reg.propertiesByProfile())
    except Exception as e:
        pbp = 'EXC:' + type(e).__name__
    return {'verdicts': vec, 'known': sorted(set(reg.knownNames)), 'known_multiset_ok': True, 'profiles': list(reg.profiles), 'byprofile': pbp}


def verdict_only(sig):
    return [(a, b[0] if isinstance(b, tuple) else b) for a, b in sig['verdicts']]


def reconstruct(cssutils, reg_profiles, default):
    """a fresh registry holding the same profiles in the same order"""
    P = cssutils.profiles
    fresh = P.Profiles(log=cssutils.log)
    fresh.removeProfile(all=True)
    for name in reg_profiles:
        if name in CUSTOM:
            props, macros = CUSTOM[name]
            fresh.addProfile(name, dict(props), dict(macros) if macros else None)
        else:
            mname = P.Profiles.CSS3_FONTS if name == P.Profiles.CSS3_FONT_FACE else name
            fresh.addProfile(name, dict(P.properties[name]), dict(P.macros[mname]))
    if default is not None:
        fresh.defaultProfiles = list(default)
    return fresh


def diff_sig(a, b):
    for key in ('profiles', 'known', 'byprofile'):
        if a[key] != b[key]:
            return {'what': key, 'long_lived': str(a[key])[:300], 'fresh': str(b[key])[:300]}
    for (pair, x, y) in zip(BATTERY, a['verdicts'], b['verdicts']):
        if x != y:
            return {'what': 'verdict', 'pair': pair, 'long_lived': x, 'fresh': y}
    return None


def spoil(props, macros):
    """what a caller may do with its own dictionaries after addProfile()"""
    for d in (props, macros):
        if d:
            for key in list(d):
                d[key] = '((( spoiled'
            d['zz-later'] = 'x'


def run_history(ctx, cssutils, rng, use_global=False, ops_in=None, raising_in=None):
    P = cssutils.profiles
    builtins = None
    if use_global:
        reg = cssutils.profile
    else:
        reg = P.Profiles(log=cssutils.log)
    builtins = list(reg.profiles)
    initial = signature(reg)
    default = None
    ops = []
    raising = raising_in if raising_in is not None else (rng.random() < 0.5)
    cssutils.log.raiseExceptions = raising  # (a validation function that raises is reported through the log: raised or only logged)
    case = {'kind': 'history', 'ops': ops, 'global': use_global, 'raising': raising}
    live = None
    n = rng.randint(2, 12)
    script = ops_in
    try:
        for step in range(len(script) if script is not None else n):
            registered = [p for p in reg.profiles if p in CUSTOM]
            absent = [p for p in CUSTOM if p not in registered]
            if script is not None:
                op = script[step]
            else:
                kinds = ['add'] * 4 + ['add-many'] * 2 + ['remove'] * 3 + ['remove-unknown', 'default', 'default-none', 'add-remove', 'default-detour', 'default-string', 'add-remove', 'remove-unknown', 'add-broken']
                if not use_global:
                    kinds += ['remove-builtin', 'readd-builtin', 'remove-all-readd', 'remove-all-customs']
                k = rng.choice(kinds)
                op = [k]
                if k in ('add', 'add-remove', 'add-many'):
                    if not absent:
                        continue
                    op.append(rng.choice(absent))
                elif k == 'remove':
                    if not registered:
                        continue
                    op.append(rng.choice(registered))
                elif k in ('default', 'default-detour'):
                    op.append(rng.sample(list(reg.profiles), rng.randint(1, min(3, len(reg.profiles)))) if reg.profiles else [])
                    if k == 'default-detour' and not op[1]:
                        continue
                elif k == 'add-broken':
                    op.append(rng.randrange(len(BROKEN)))
                elif k == 'default-string':
                    # round 8: the restriction given as one plain name (documented: "a single or a list of profile names"), with a liking for names that contain another one
                    cands = [p for p in reg.profiles if any(q != p and q in p for q in reg.profiles)]
                    pool = cands if cands and rng.random() < 0.6 else list(reg.profiles)
                    if not pool:
                        continue
                    op.append(rng.choice(pool))
                elif k == 'remove-builtin':
                    present = [b for b in builtins if b in reg.profiles]
                    if len(present) < 3:
                        continue
                    op.append(rng.choice(present))
                elif k == 'readd-builtin':
                    gone = [b for b in builtins if b not in reg.profiles]
                    if not gone:
                        continue
                    op.append(rng.choice(gone))
            ops.append(op)
            k = op[0]
            ctx.count('op.' + k)
            before = signature(reg) if k in ('add-remove', 'remove-unknown', 'add-broken') else None
            if k == 'add':
                props, macros = CUSTOM[op[1]]
                pd, md = dict(props), (dict(macros) if macros else None)
                reg.addProfile(op[1], pd, md)
                # the dictionaries handed over stay the caller's: what happens to them afterwards is none of the registry's business
                spoil(pd, md)
            elif k == 'add-many':
                # the same profile through the other door: addProfiles([...]) registers what addProfile registers
                props, macros = CUSTOM[op[1]]
                pd, md = dict(props), (dict(macros) if macros else None)
                reg.addProfiles([(op[1], pd, md)])
                spoil(pd, md)
            elif k == 'remove-all-customs':
                # empty the registry, then only the custom profiles come back: nothing of what was there before may linger
                customs = [p for p in reg.profiles if p in CUSTOM]
                reg.removeProfile(all=True)
                for c in customs:
                    props, macros = CUSTOM[c]
                    reg.addProfile(c, dict(props), dict(macros) if macros else None)
            elif k == 'default-detour':
                # the usual save / change / restore of the defaults leaves things as they were
                saved = reg.defaultProfiles
                reg.defaultProfiles = op[1]
                reg.defaultProfiles = saved
            elif k == 'remove':
                reg.removeProfile(op[1])
            elif k == 'add-remove':
                props, macros = CUSTOM[op[1]]
                reg.addProfile(op[1], dict(props), dict(macros) if macros else None)
                reg.removeProfile(op[1])
                ctx.count('oracle.add-remove-restores')
                after = signature(reg)
                d = diff_sig(before, after)
                if d:
                    ctx.violation('law.add-remove-restores', dict(case, failed_at=step), d)
                    return
            elif k == 'add-broken':
                # round 8: a definition the registry cannot compile (unknown macro, alone or beside macros of its own that shadow known ones)
                # is refused - and a refused profile is not registered, in no part
                props, macros = BROKEN[op[1]]
                ctx.count('oracle.refused-add')
                try:
                    reg.addProfile('BROKEN', dict(props), dict(macros) if macros else None)
                    ctx.violation('law.refused-add-changes-nothing', dict(case, failed_at=step), {'what': 'accepted'})
                    return
                except Exception:
                    pass
                d = diff_sig(before, signature(reg))
                if d:
                    ctx.violation('law.refused-add-changes-nothing', dict(case, failed_at=step), d)
                    return
            elif k == 'remove-unknown':
                ctx.count('oracle.unknown-removal')
                try:
                    reg.removeProfile('no-such-profile-%d' % step)
                    ctx.violation('law.unknown-removal-rejected', dict(case, failed_at=step), {'what': 'accepted'})
                    return
                except P.NoSuchProfileException:
                    pass
                d = diff_sig(before, signature(reg))
                if d:
                    ctx.violation('law.unknown-removal-rejected', dict(case, failed_at=step), d)
                    return
            elif k == 'default':
                if not op[1] or any(p not in reg.profiles for p in op[1]):
                    ops.pop()
                    continue
                default = list(op[1])
                reg.defaultProfiles = list(default)
            elif k == 'default-string':
                if op[1] not in reg.profiles:
                    ops.pop()
                    continue
                default = [op[1]]
                reg.defaultProfiles = op[1]
                ctx.count('oracle.default-as-string')
                # the same restriction given per call, as a plain name, says what the registry-wide one says
                for nm, val in BATTERY[step % 5 :: 5]:
                    try:
                        x, y = reg.validateWithProfile(nm, val), reg.validateWithProfile(nm, val, op[1])
                    except Exception:
                        continue
                    if (bool(x[0]), bool(x[1]), list(x[2])) != (bool(y[0]), bool(y[1]), list(y[2])):
                        ctx.violation('law.defaults-do-not-change-validity', dict(case, failed_at=step), {'pair': [nm, val], 'registry-wide': str(x), 'per call': str(y), 'default': op[1]})
                        return
            elif k == 'default-none':
                default = None
                reg.defaultProfiles = None
            elif k == 'remove-builtin':
                reg.removeProfile(op[1])
            elif k == 'readd-builtin':
                mname = P.Profiles.CSS3_FONTS if op[1] == P.Profiles.CSS3_FONT_FACE else op[1]
                reg.addProfile(op[1], dict(P.properties[op[1]]), dict(P.macros[mname]))
            elif k == 'remove-all-readd':
                customs = [p for p in reg.profiles if p in CUSTOM]
                reg.removeProfile(all=True)
                if reg.profiles or set(reg.knownNames):
                    ctx.violation('law.remove-all-empties', dict(case, failed_at=step), {'profiles': list(reg.profiles), 'known': len(reg.knownNames)})
                    return
                reg.addProfiles([(b, dict(P.properties[b]), dict(P.macros[P.Profiles.CSS3_FONTS if b == P.Profiles.CSS3_FONT_FACE else b])) for b in builtins])
                for c in customs:
                    props, macros = CUSTOM[c]
                    pd, md = dict(props), (dict(macros) if macros else None)
                    reg.addProfile(c, pd, md)
                    spoil(pd, md)
            if default is not None and any(p not in reg.profiles for p in default):
                default = None
                reg.defaultProfiles = None
            # ---- DOM objects that were there before the registry changed: validated again they say what a new object says
            if use_global:
                if live is None:
                    live = []
                pairs = [BATTERY[(step * 7 + j * 13) % len(BATTERY)] for j in range(6)]
                for nm, val in pairs:
                    try:
                        live.append((nm, val, cssutils.css.Property(nm, val)))
                    except Exception:
                        pass
                for nm, val, obj in live[-40:]:
                    ctx.count('oracle.live-objects')
                    try:
                        cssutils.log.raiseExceptions = False
                        obj.validate()
                        old_v = bool(obj.valid)
                        new_v = bool(cssutils.css.Property(nm, val).valid)
                    except Exception as e:
                        ctx.violation('exception', dict(case, failed_at=step), {'tb': core.short_tb(e), 'what': 'validating a long-lived Property'}, site=core.raise_site(e))
                        return
                    finally:
                        cssutils.log.raiseExceptions = raising
                    if old_v != new_v:
                        ctx.violation('law.live-object-agrees-with-new-object', dict(case, failed_at=step), {'pair': [nm, val], 'long_lived.validate()': old_v, 'new Property': new_v})
                        return
            # ---- lock-step comparison with the reconstruction
            ctx.count('oracle.step')
            sig = signature(reg)
            fresh = reconstruct(cssutils, list(reg.profiles), default)
            d = diff_sig(sig, signature(fresh))
            if d:
                ctx.violation('lockstep.vs-fresh-registry', dict(case, failed_at=step), d)
                return
            for (nm, val), (a, b) in zip(BATTERY, sig['verdicts']):
                if isinstance(a, str) or isinstance(b, str):
                    continue
                ctx.count('oracle.validate-agrees')
                if a != b[0]:
                    ctx.violation('law.validate-agrees-with-validateWithProfile', dict(case, failed_at=step), {'pair': [nm, val], 'validate': a, 'validateWithProfile': list(b), 'default': default})
                    return
            # valid <=> some registered profile that defines the property accepts
            for (nm, val), (a, b) in list(zip(BATTERY, sig['verdicts']))[:: 7]:
                if isinstance(a, str):
                    continue
                anyp = False
                for p in reg.profiles:
                    try:
                        r = reg.validateWithProfile(nm, val, profiles=p)
                        if r[1]:
                            anyp = True
                    except Exception:
                        pass
                if anyp != a:
                    ctx.violation('law.valid-iff-some-profile-accepts', dict(case, failed_at=step), {'pair': [nm, val], 'validate': a, 'some_profile_accepts': anyp})
                    return
            # default profiles never change validity
            if default is not None:
                reg.defaultProfiles = None
                unrestricted = verdict_only(signature(reg))
                reg.defaultProfiles = default[0] if k == 'default-string' else list(default)
                # (a validation function that raises in raising mode aborts the scan: where either side is an exception the order of the
                # scan decides, which the restriction legitimately changes)
                pairs = [(x, y) for x, y in zip(unrestricted, verdict_only(sig)) if not isinstance(x[0], str) and not isinstance(y[0], str) and not isinstance(x[1], str) and not isinstance(y[1], str)]
                if any(x != y for x, y in pairs):
                    ctx.violation('law.defaults-do-not-change-validity', dict(case, failed_at=step), {'default': default})
                    return
            ctx.seen(['S', sorted(p for p in reg.profiles if p in CUSTOM), len([b for b in builtins if b in reg.profiles]), bool(default), k])
        ctx.count('histories')
    except Exception as e:
        ctx.violation('exception', dict(case, failed_at=len(ops) - 1), {'tb': core.short_tb(e)}, site=core.raise_site(e))
    finally:
        if use_global:
            # restore the library-wide registry and check that it really is restored
            try:
                reg.defaultProfiles = None
                for p in [p for p in reg.profiles if p in CUSTOM]:
                    reg.removeProfile(p)
                d = diff_sig(initial, signature(reg))
                if d:
                    ctx.violation('law.global-registry-restored', case, d)
                    cssutils.profile = P.Profiles(log=cssutils.log)
            except Exception as e:
                ctx.violation('exception', case, {'tb': core.short_tb(e), 'what': 'while restoring the global registry'}, site=core.raise_site(e))
                cssutils.profile = P.Profiles(log=cssutils.log)


ALT = {
    'P1': ({'x-one': 'c|d'}, None),
    'P2': ({'color': 'blue', 'x-two': 'zzz|{x-mycolor}'}, {'x-mycolor': 'qux'}),
    'P6': ({'x-p6': 'other|{x-mycolor}'}, {'x-mycolor': 'bar'}),
    'P10': ({'x-ten': 'eleven'}, None),
}
BLIND_PAIRS = {'P1': [('x-one', 'a'), ('x-one', 'c'), ('x-one', '1')], 'P2': [('x-two', 'foo'), ('x-two', 'qux'), ('x-two', 'zzz')],
               'P6': [('x-p6', 'baz'), ('x-p6', 'other'), ('x-p6', 'bar')], 'P10': [('x-ten', 'ten'), ('x-ten', 'eleven'), ('x-ten', '3')]}


def run_blind_history(ctx, cssutils, rng, script_in=None):
    """round 8: a registry that is asked *little*. The lock-step histories above read 200 verdicts after every operation, which would
    refresh anything the registry remembers; here one profile is replaced by another edition under the same name (and in the same place)
    with nothing asked in between except, sometimes, the very pairs under test - and the answers are those of a registry that only ever
    had the new edition."""
    P = cssutils.profiles
    if script_in is not None:
        name, others, probes, order = script_in
    else:
        name = rng.choice(sorted(ALT))
        others = rng.sample([c for c in ('P3', 'P4', 'P5', 'P7', 'P8') ], rng.randint(0, 2))
        probes = [rng.random() < 0.8, rng.random() < 0.3]  # ask before the removal / between removal and re-adding
        order = rng.choice(['old-first', 'new-first'])
    case = {'kind': 'blind', 'script': [name, others, probes, order]}
    ctx.count('oracle.blind-replacement')
    first, second = (CUSTOM[name], ALT[name]) if order == 'old-first' else (ALT[name], CUSTOM[name])
    pairs = BLIND_PAIRS[name]

    def ask(reg):
        out = []
        for nm, val in pairs:
            try:
                r = reg.validateWithProfile(nm, val)
                out.append((bool(reg.validate(nm, val)), bool(r[0]), bool(r[1]), list(r[2])))
            except Exception as e:
                out.append('EXC:' + type(e).__name__)
        return out

    try:
        cssutils.log.raiseExceptions = False
        reg = P.Profiles(log=cssutils.log)
        for o in others:
            reg.addProfile(o, dict(CUSTOM[o][0]), dict(CUSTOM[o][1]) if CUSTOM[o][1] else None)
        reg.addProfile(name, dict(first[0]), dict(first[1]) if first[1] else None)
        if probes[0]:
            ask(reg)
        reg.removeProfile(name)
        if probes[1]:
            ask(reg)
        reg.addProfile(name, dict(second[0]), dict(second[1]) if second[1] else None)
        got = ask(reg)
        fresh = P.Profiles(log=cssutils.log)
        for o in others:
            fresh.addProfile(o, dict(CUSTOM[o][0]), dict(CUSTOM[o][1]) if CUSTOM[o][1] else None)
        fresh.addProfile(name, dict(second[0]), dict(second[1]) if second[1] else None)
        exp = ask(fresh)
        if got != exp:
            ctx.violation('lockstep.vs-fresh-registry', case, {'what': 'verdicts after a profile was replaced under its own name', 'pairs': pairs, 'long_lived': str(got), 'fresh': str(exp)})
        ctx.seen(['B', name, sorted(others), probes, order])
    except Exception as e:
        ctx.violation('exception', case, {'tb': core.short_tb(e)}, site=core.raise_site(e))
    finally:
        core.canonical_state(cssutils, raising=True)


def run_worker(ctx):
    cssutils, _ = core.import_repo()
    core.canonical_state(cssutils, raising=True)
    n = 700 if ctx.tier == 'quick' else 16000
    for i in range(n):
        if not ctx.mine(i):
            continue
        ctx.count('evaluations')
        run_history(ctx, cssutils, ctx.rng('h', i), use_global=(i % 5 == 0))
        run_blind_history(ctx, cssutils, ctx.rng('b', i))
    ctx.sample({'custom_profiles': {k: [v[0], v[1]] for k, v in CUSTOM.items()}, 'battery_size': len(BATTERY),
                'example_history': [['add', 'P3'], ['add', 'P8'], ['remove', 'P3'], ['default', ['CSS Level 2.1']], ['remove', 'P8']]})


def replay(ctx, case):
    cssutils, _ = core.import_repo()
    import random

    if case.get('kind') == 'blind':
        run_blind_history(ctx, cssutils, random.Random(0), script_in=case['script'])
        return
    run_history(ctx, cssutils, random.Random(0), use_global=case.get('global', False), ops_in=[list(o) for o in case['ops']], raising_in=case.get('raising', True))
    core.canonical_state(cssutils)
