"""C18 - value normalisation keeps the denotation (DESIGN section 6, C18).

Arithmetic oracle over a dense literal space + post-condition wrappers on the real
CSSSerializer.do_css_Value and CSSSerializer._hash (evaluated on every call any workload makes)."""

import itertools
import re
from decimal import Decimal
from fractions import Fraction

from engine import core
from models.scan import decode

PROPERTY = 'C18'
LEVEL = 'exploration'
LEVEL_TEXT = (
    'Arithmetic oracle over an exhaustively enumerated literal space (sign x integer part x every 1-3 digit fraction and selected longer '
    'ones x 14 units x omitLeadingZero), all 4096 short and all 4096 doubled long hash colours plus near misses in three letter cases, '
    'rgb/hsl argument sweeps, keyword colours, strings and URLs over hostile alphabets; additionally post-condition wrappers on the real '
    'do_css_Value/_hash run on every serialisation.'
)
LEVEL_NOTE = 'trusted: decimal/fractions arithmetic, colorsys-free HSL formula written from CSS3 Color 4.2.4, the 17 CSS 2.1 colour keywords'
TECHNIQUE = 'runtime monitoring: arithmetic construction oracle + post-condition contracts on the real serializer functions'
DESIGN_REF = 'DESIGN.md section 6, C18'
RULE = (
    'numbers: sign {"", +, -} x integer part {none, 0, 00, 1, 12, 007, 100, 999999, 10^6, 10^9} x fraction {none, all 1-3 digit fractions (thorough) / '
    'a stratified sample (quick), selected 4-7 digit ones} x 14 units x omitLeadingZero; hashes: all #rgb, all doubled #rrggbb, one-digit-off '
    'near misses; colours: keyword table, rgb()/rgba()/hsl()/hsla() sweeps; strings/urls over quotes, backslash, parentheses, white space, non-ASCII. '
    'distinct_nontrivial = distinct source literals judged'
)
EXHAUSTIVE = {'quick': False, 'thorough': False}
EXHAUSTIVE_NOTE = 'thorough enumerates the number grid and the short/doubled hash sets completely'
ASSUMPTIONS = [
    'rgb(50%, ...) may be floored or rounded; hsl->rgb compared within +-1 per channel',
    'string/url accessors may keep simple (non-hex) escapes undecoded, as cssutils documents for values',
    'zero with a length unit may lose the unit (stated by the property)',
]
MIN_EVENTS = {
    'quick': {'oracle.nested': 500, 'oracle.reassign': 500, 'oracle.reassign-declaration': 2600, 'oracle.number': 40000, 'oracle.hash': 20000, 'oracle.color': 2000, 'oracle.string': 3000, 'contract.do_css_Value': 40000, 'contract._hash': 10000},
    'thorough': {'oracle.nested': 500, 'oracle.reassign': 500, 'oracle.reassign-declaration': 2600, 'oracle.number': 800000, 'oracle.hash': 300000, 'oracle.color': 30000, 'oracle.string': 60000, 'contract.do_css_Value': 800000, 'contract._hash': 100000},
}

UNITS = ['', '%', 'px', 'em', 'ex', 'cm', 'mm', 'in', 'pt', 'pc', 'deg', 's', 'ms', 'Hz', 'PX', 'x']
LENGTH_UNITS = {'cm', 'mm', 'in', 'px', 'pc', 'pt', 'em', 'ex'}
NUM = re.compile(r'^([+-]?)(\d*\.\d+|\d+)(.*)$', re.S)


def split_literal(text):
    m = NUM.match(text)
    if not m:
        return None
    return m.group(1), m.group(2), m.group(3)


def judge_number(ctx, src, out, prefs, where):
    """src and out are literal texts (number + unit); returns False on violation"""
    a = split_literal(src)
    b = split_literal(out.strip())
    case = {'kind': 'number', 'src': src, 'prefs': prefs}
    feats = []
    digits = len(a[1].replace('.', '').lstrip('0'))
    if '.' in a[1] and digits > 15:
        feats.append('number.more-than-15-significant-digits')
    if b is None:
        ctx.violation('number.' + where, case, {'out': out, 'what': 'output is not a number'}, features=feats)
        return False
    sa = Fraction(Decimal(a[0] + a[1] if a[0] != '+' else a[1]))
    sb = Fraction(Decimal(b[0] + b[1] if b[0] != '+' else b[1]))
    nfrac = len(a[1].split('.')[1]) if '.' in a[1] else 0
    ok = sa == sb if nfrac <= 6 else abs(sa - sb) <= Fraction(1, 10**6)
    ua, ub = a[2].lower(), b[2].lower()
    unit_ok = ua == ub or ((sa == 0 or sb == 0) and ua in LENGTH_UNITS and ub == '')
    if not ok or not unit_ok:
        ctx.violation('number.' + where, case, {'out': out, 'src_value': str(sa), 'out_value': str(sb), 'unit': [ua, ub]}, features=feats)
        return False
    # redundant zeros dropped, zero lengths unit-less (stated by the property)
    return True


def number_grid(tier):
    signs = ['', '+', '-']
    ints = ['', '0', '00', '1', '12', '007', '100', '999999', '1000000', '1000000000']
    fracs = ['']
    if tier == 'thorough':
        fracs += ['%d' % i for i in range(10)] + ['%02d' % i for i in range(100)] + ['%03d' % i for i in range(1000)]
    else:
        fracs += ['%d' % i for i in range(10)] + ['%02d' % i for i in range(0, 100, 3)] + ['%03d' % i for i in range(0, 1000, 37)] + ['05', '050', '500', '005', '999', '10', '100', '001']
    fracs += ['0001', '00001', '000001', '123456', '999999', '9999995', '9999994', '0000001', '0000005', '0000004', '1234567', '5000000',
              '500000', '050000', '99999', '999995', '0000049', '0000051', '9999949', '00000051']  # fmt: skip
    for s in signs:
        for ip in ints:
            for fp in fracs:
                if not ip and not fp:
                    continue
                yield s + ip + ('.' + fp if fp else '')


# ---- contracts on the real functions ----------------------------------------------------------------
class Contracts:
    """ensure-style post-conditions on CSSSerializer.do_css_Value and ._hash, installed on the class so that
    every serialisation any workload triggers is judged (icontract when available, else an equivalent wrapper)."""

    def __init__(self, ctx, cssutils):
        self.ctx = ctx
        ser_cls = type(cssutils.ser)
        self.ser_cls = ser_cls
        self.orig_value = ser_cls.do_css_Value
        self.orig_hash = ser_cls._hash
        ctr = self

        def do_css_Value(self, value, valuesOnly=None):
            result = ctr.orig_value(self, value, valuesOnly)
            try:
                if value and getattr(value, 'type', None) in ('DIMENSION', 'NUMBER', 'PERCENTAGE'):
                    ctr.ctx.count('contract.do_css_Value')
                    src = '%s%r' % ('', value.value)
                    # the typed accessor is the source of truth here: result must denote value.value with value.dimension
                    b = split_literal(result.strip())
                    v = Fraction(value.value)  # the exact value of the typed accessor
                    tol = max(Fraction(1, 10**6), abs(v) / 10**14)
                    if b is None:
                        raise AssertionError('not a number: %r' % result)
                    got = Fraction(Decimal(b[0].replace('+', '') + b[1]))
                    unit = (value.dimension or '').lower()
                    if abs(got - v) > tol or not (b[2].lower() == unit or (v == 0 and unit in LENGTH_UNITS and b[2] == '')):
                        raise AssertionError('do_css_Value(%r %r) -> %r' % (value.value, value.dimension, result))
                    if v < 0 and got >= 0 and abs(v) > Fraction(1, 10**6):
                        raise AssertionError('sign lost: %r -> %r' % (value.value, result))
            except AssertionError as e:
                ctr.ctx.violation('contract.do_css_Value', {'kind': 'contract', 'value': repr(getattr(value, 'value', None)), 'dimension': getattr(value, 'dimension', None),
                                                            'omitLeadingZero': self.prefs.omitLeadingZero}, {'msg': str(e), 'result': result})
            return result

        def _hash(self, val, type_=None):
            result = ctr.orig_hash(self, val, type_)
            ctr.ctx.count('contract._hash')
            if expand_hash(result) != expand_hash(val) and expand_hash(val) is not None:
                ctr.ctx.violation('contract._hash', {'kind': 'contract-hash', 'val': val, 'minimize': self.prefs.minimizeColorHash}, {'result': result})
            return result

        ser_cls.do_css_Value = do_css_Value
        ser_cls._hash = _hash

    def remove(self):
        self.ser_cls.do_css_Value = self.orig_value
        self.ser_cls._hash = self.orig_hash


def expand_hash(h):
    """'#abc' / '#aabbcc' -> (r, g, b) or None"""
    if not isinstance(h, str) or not h.startswith('#'):
        return None
    x = h[1:]
    try:
        if len(x) == 3:
            return tuple(int(c * 2, 16) for c in x)
        if len(x) == 6:
            return tuple(int(x[i : i + 2], 16) for i in (0, 2, 4))
    except ValueError:
        return None
    return None


# ---- streams ------------------------------------------------------------------------------------------
def parse_value(cssutils, text):
    pv = cssutils.css.PropertyValue(text)
    return pv


def stream_numbers(ctx, cssutils):
    grid = list(number_grid(ctx.tier))
    if ctx.k == 0:
        ctx.count('numbers.grid', len(grid))
    extra = ['12345678901234567890', '12345678901234567890.5', '-12345678901234567890', '0.1234567890123456789', '99999999999999999999.999999']
    units = UNITS
    idx = 0
    for lit in itertools.chain(grid, extra):
        for u in units:
            idx += 1
            if not ctx.mine(idx):
                continue
            if ctx.tier == 'quick' and u not in ('', '%', 'px', 'em', 'deg', 'PX') and idx % 3:
                continue
            src = lit + u
            for olz in (False, True):
                cssutils.ser.prefs.omitLeadingZero = olz
                ctx.count('evaluations')
                ctx.count('oracle.number')
                case = {'kind': 'number', 'src': src, 'prefs': {'omitLeadingZero': olz}}
                try:
                    pv = parse_value(cssutils, src)
                    if not pv.wellformed or len(pv) != 1:
                        ctx.violation('number.parse', case, {'wellformed': pv.wellformed, 'len': len(pv)})
                        continue
                    out = pv.cssText
                    if not judge_number(ctx, src, out, {'omitLeadingZero': olz}, 'serialise'):
                        continue
                    # typed accessors agree with the source text
                    item = pv[0]
                    a = split_literal(src)
                    digits = len(a[1].replace('.', '').lstrip('0'))
                    exact = Fraction(Decimal(a[0].replace('+', '') + a[1]))
                    acc = Fraction(Decimal(repr(item.value)))
                    tol = 0 if digits <= 15 else abs(exact) / 10**14
                    unit = (item.dimension or '')
                    if abs(acc - exact) > tol or unit.lower() != a[2].lower():
                        feats = ['number.more-than-15-significant-digits'] if digits > 15 and '.' in a[1] else []
                        ctx.violation('number.accessor', case, {'value': repr(item.value), 'dimension': item.dimension}, features=feats)
                    # serialisation is a fixpoint and reparses to the same number
                    pv2 = parse_value(cssutils, out)
                    out2 = pv2.cssText
                    nfrac = len(a[1].split('.')[1]) if '.' in a[1] else 0
                    if out2 != out and nfrac <= 6:
                        ctx.violation('number.fixpoint', case, {'out': out, 'out2': out2})
                    judge_number(ctx, src, out2, {'omitLeadingZero': olz}, 'reparse')
                except Exception as e:
                    ctx.violation('number.exception', case, {'tb': core.short_tb(e)}, site=core.raise_site(e))
            cssutils.ser.prefs.omitLeadingZero = False
            ctx.seen('N' + src)
            if idx % 40009 == 0:
                ctx.sample({'stream': 'number', 'src': src})


def case_variants(h, rng=None):
    return {h.lower(), h.upper(), h[0] + ''.join(c.upper() if i % 2 else c.lower() for i, c in enumerate(h[1:]))}


def stream_hashes(ctx, cssutils):
    hexd = '0123456789abcdef'
    idx = 0

    def judge(src, minimize):
        ctx.count('evaluations')
        ctx.count('oracle.hash')
        cssutils.ser.prefs.minimizeColorHash = minimize
        case = {'kind': 'hash', 'src': src, 'prefs': {'minimizeColorHash': minimize}}
        try:
            pv = parse_value(cssutils, src)
            item = pv[0]
            exp = expand_hash(src)
            got = (item.red, item.green, item.blue)
            if got != exp or item.alpha != 1.0:
                ctx.violation('hash.accessor', case, {'got': got + (item.alpha,), 'expected': exp})
            out = pv.cssText
            if expand_hash(out.strip()) != exp:
                ctx.violation('hash.serialise', case, {'out': out, 'expected_rgb': exp})
            elif minimize and len(src) == 7 and src[1].lower() == src[2].lower() and src[3].lower() == src[4].lower() and src[5].lower() == src[6].lower():
                pass  # shortening is allowed here (and only here) - not required by the property
            elif len(out.strip()) != len(src) and not minimize:
                ctx.violation('hash.serialise', case, {'out': out, 'what': 'length changed although minimizeColorHash is off'})
            pv2 = parse_value(cssutils, out)
            if (pv2[0].red, pv2[0].green, pv2[0].blue) != exp or pv2.cssText != out:
                ctx.violation('hash.reparse', case, {'out': out, 'out2': pv2.cssText})
        except Exception as e:
            ctx.violation('hash.exception', case, {'tb': core.short_tb(e)}, site=core.raise_site(e))
        finally:
            cssutils.ser.prefs.minimizeColorHash = True

    for a, b, c in itertools.product(hexd, repeat=3):
        idx += 1
        if not ctx.mine(idx):
            continue
        short = '#' + a + b + c
        longd = '#' + a + a + b + b + c + c
        for h in sorted(case_variants(short) | case_variants(longd)):
            for m in (True, False):
                judge(h, m)
        ctx.seen('H' + short)
        # near misses: one digit of the doubled form changed - must not shorten to something else
        rng = ctx.rng('near', idx)
        n = 6 if ctx.tier == 'quick' else 40
        for _ in range(n):
            pos = rng.randrange(6)
            d = rng.choice([x for x in hexd if x != longd[1 + pos]])
            near = longd[: 1 + pos] + d + longd[2 + pos :]
            judge(rng.choice(sorted(case_variants(near))), True)
            ctx.seen('H' + near)
    # stratified sample of arbitrary long hashes
    for i in range(4000 if ctx.tier == 'quick' else 400000):
        if not ctx.mine(i):
            continue
        rng = ctx.rng('long', i)
        h = '#' + ''.join(rng.choice(hexd) for _ in range(6))
        judge(h if rng.random() < 0.5 else h.upper(), rng.random() < 0.7)


CSS21_COLORS = {
    'aqua': (0, 255, 255), 'black': (0, 0, 0), 'blue': (0, 0, 255), 'fuchsia': (255, 0, 255), 'gray': (128, 128, 128), 'green': (0, 128, 0),
    'lime': (0, 255, 0), 'maroon': (128, 0, 0), 'navy': (0, 0, 128), 'olive': (128, 128, 0), 'orange': (255, 165, 0), 'purple': (128, 0, 128),
    'red': (255, 0, 0), 'silver': (192, 192, 192), 'teal': (0, 128, 128), 'white': (255, 255, 255), 'yellow': (255, 255, 0),
}  # fmt: skip


def hsl_to_rgb(h, s, l):
    """CSS3 Color 4.2.4; h in degrees, s/l fractions"""
    h = (h % 360) / 360.0
    m2 = l * (s + 1) if l <= 0.5 else l + s - l * s
    m1 = l * 2 - m2

    def hue(hh):
        if hh < 0:
            hh += 1
        if hh > 1:
            hh -= 1
        if hh * 6 < 1:
            return m1 + (m2 - m1) * hh * 6
        if hh * 2 < 1:
            return m2
        if hh * 3 < 2:
            return m1 + (m2 - m1) * (2 / 3.0 - hh) * 6
        return m1

    return tuple(round(255 * x) for x in (hue(h + 1 / 3.0), hue(h), hue(h - 1 / 3.0)))


def judge_color(ctx, cssutils, src, exp, tol, alpha, family):
    ctx.count('evaluations')
    ctx.count('oracle.color')
    case = {'kind': 'color', 'src': src}
    try:
        pv = parse_value(cssutils, src)
        if not pv.wellformed or len(pv) != 1:
            ctx.violation('color.parse', case, {'wellformed': pv.wellformed})
            return
        it = pv[0]
        got = (it.red, it.green, it.blue)

        def close(g, e):
            return all(any(abs(gc - ec) <= tol for ec in (ecs if isinstance(ecs, (tuple, list)) else (ecs,))) for gc, ecs in zip(g, e))

        if not close(got, exp) or abs(it.alpha - alpha) > 1e-9:
            ctx.violation('color.accessor', case, {'got': got + (it.alpha,), 'expected': [exp, alpha]})
            return
        out = pv.cssText
        pv2 = parse_value(cssutils, out)
        it2 = pv2[0]
        if (it2.red, it2.green, it2.blue, it2.alpha) != (it.red, it.green, it.blue, it.alpha) or pv2.cssText != out:
            ctx.violation('color.reparse', case, {'out': out, 'before': got + (it.alpha,), 'after': (it2.red, it2.green, it2.blue, it2.alpha), 'out2': pv2.cssText})
        ctx.seen('C' + src)
    except Exception as e:
        ctx.violation('color.exception', case, {'tb': core.short_tb(e)}, site=core.raise_site(e))


def stream_colors(ctx, cssutils):
    # keywords: independent table for CSS 2.1, metamorphic (round trip) for cssutils' whole table
    names = sorted(cssutils.css.ColorValue.COLORS)
    for i, name in ctx.share(names):
        for sp in (name, name.upper(), name.capitalize()):
            ctx.count('evaluations')
            ctx.count('oracle.color')
            case = {'kind': 'color', 'src': sp}
            try:
                pv = parse_value(cssutils, sp)
                it = pv[0]
                if name in CSS21_COLORS and (it.red, it.green, it.blue) != CSS21_COLORS[name]:
                    ctx.violation('color.accessor', case, {'got': (it.red, it.green, it.blue), 'expected': CSS21_COLORS[name]})
                out = pv.cssText
                it2 = parse_value(cssutils, out)[0]
                if (it2.red, it2.green, it2.blue, it2.alpha) != (it.red, it.green, it.blue, it.alpha):
                    ctx.violation('color.reparse', case, {'out': out})
                if out.lower() != name:
                    ctx.violation('color.reparse', case, {'out': out, 'what': 'keyword changed'})
            except AttributeError:
                ctx.count('color.keyword-not-a-colorvalue')
            except Exception as e:
                ctx.violation('color.exception', case, {'tb': core.short_tb(e)}, site=core.raise_site(e))
    n = 4000 if ctx.tier == 'quick' else 40000
    edge = [0, 1, 127, 128, 254, 255]
    for i in range(n):
        if not ctx.mine(i):
            continue
        rng = ctx.rng('rgb', i)
        kind = rng.randrange(6)
        sp = rng.choice(['', ' ', '  '])
        fn_case = rng.choice([str.lower, str.lower, str.upper])
        if kind == 0:
            c = [rng.choice(edge + [rng.randint(0, 255)]) for _ in range(3)]
            src = fn_case('rgb') + '(' + (',' + sp).join(str(x) for x in c) + ')'
            judge_color(ctx, cssutils, src, tuple(c), 0, 1.0, 'rgb')
        elif kind == 1:
            p = [rng.choice([0, 100, 50, 25, 33, 99, 1, rng.randint(0, 100)]) for _ in range(3)]
            src = fn_case('rgb') + '(' + (',' + sp).join('%d%%' % x for x in p) + ')'
            exp = tuple((int(255 * x / 100), round(255 * x / 100.0)) for x in p)
            judge_color(ctx, cssutils, src, exp, 0, 1.0, 'rgb%')
        elif kind == 2:
            c = [rng.randint(0, 255) for _ in range(3)]
            a = rng.choice(['0', '1', '0.5', '.25', '0.125', '1.0', '0.0'])
            src = fn_case('rgba') + '(' + (',' + sp).join(str(x) for x in c) + ',' + sp + a + ')'
            judge_color(ctx, cssutils, src, tuple(c), 0, float(a), 'rgba')
        elif kind in (3, 4):
            h = rng.choice([0, 60, 120, 180, 240, 300, 360, 30, 90, rng.randint(0, 360)])
            s = rng.choice([0, 100, 50, 25, rng.randint(0, 100)])
            l = rng.choice([0, 100, 50, 25, 75, rng.randint(0, 100)])
            exp = hsl_to_rgb(h, s / 100.0, l / 100.0)
            if kind == 3:
                src = fn_case('hsl') + '(%d,%s%d%%,%s%d%%)' % (h, sp, s, sp, l)
                judge_color(ctx, cssutils, src, exp, 1, 1.0, 'hsl')
            else:
                a = rng.choice(['0', '1', '0.5', '.75'])
                src = fn_case('hsla') + '(%d,%s%d%%,%s%d%%,%s%s)' % (h, sp, s, sp, l, sp, a)
                judge_color(ctx, cssutils, src, exp, 1, float(a), 'hsla')
        else:
            judge_color(ctx, cssutils, 'transparent', (0, 0, 0), 0, 0.0, 'kw')


CONTENT_CHARS = list('abcXYZ019 .,;:!?#$%&*+-/<=>@[]^_`{|}~()') + ['"', "'", '\\', '\n', '\t', 'é', 'Ж', '中', '\U0001f600', '\xa0']


def css_string(content, quote, rng):
    out = []
    for idx, ch in enumerate(content):
        nxt = content[idx + 1 : idx + 2]
        if ch == quote or ch == '\\':
            out.append('\\' + ch)
        elif ch in '\n\r\f':
            out.append('\\%x ' % ord(ch))
        elif ch != '\t' and rng.random() < 0.04 and ch not in '0123456789abcdefABCDEF' and ch not in '\n\r\f':
            out.append('\\' + ch)  # needless simple escape of an ordinary character
        elif rng.random() < 0.06:
            # needless hex escape in every digit count: six digits need no terminator, but one white space after any escape belongs to it
            k = rng.choice([0, 0, 4, 6])
            hx = ('%x' % ord(ch)).rjust(k, '0') if k else '%x' % ord(ch)
            if len(hx) > 6:
                out.append(ch)
            else:
                # (a six-digit escape may be followed directly by the next character - unless that is white space, which would be taken for the terminator)
                bare_ok = len(hx) == 6 and nxt not in ('', ' ', '\t', '\n', '\r', '\f')
                out.append('\\' + rng.choice([hx, hx.upper()]) + rng.choice([' ', '', '\n', ' '] if bare_ok else [' ', ' ', '\t', '\n']))
        else:
            out.append(ch)
    return quote + ''.join(out) + quote


def content_equal(value, content):
    return value == content or decode(value, keep_simple=False) == content


def stream_strings(ctx, cssutils):
    n = 4000 if ctx.tier == 'quick' else 80000
    for i in range(n):
        if not ctx.mine(i):
            continue
        rng = ctx.rng('str', i)
        content = ''.join(rng.choice(CONTENT_CHARS) for _ in range(rng.randint(0, 10)))
        quote = rng.choice('"\'')
        is_url = rng.random() < 0.45
        lit = css_string(content, quote, rng)
        feats = []
        if '\\' in content:
            feats.append('content.backslash')
        other = '"' if quote == "'" else "'"
        if '\\' + other in lit:
            feats.append('string.escaped-other-quote')
        if is_url:
            if rng.random() < 0.3 and not re.search(r'[\s"\'()\\]', content) and content:
                src = 'url(' + content + ')'
            else:
                src = rng.choice(['url(', 'URL(']) + rng.choice(['', ' ']) + lit + rng.choice(['', ' ']) + ')'
        else:
            src = lit
        judge_string(ctx, cssutils, src, content, is_url, feats)


def judge_string(ctx, cssutils, src, content, is_url, feats):
    ctx.count('evaluations')
    ctx.count('oracle.string')
    case = {'kind': 'string-rt', 'src': src, 'content': content, 'url': is_url}
    try:
        pv = parse_value(cssutils, src)
        if not pv.wellformed or len(pv) != 1:
            ctx.violation('string.parse', case, {'wellformed': pv.wellformed, 'len': len(pv)}, features=feats)
            return
        it = pv[0]
        acc = it.uri if is_url else it.value
        if not content_equal(acc, content):
            ctx.violation('string.accessor', case, {'accessor': acc}, features=feats)
            return
        out = pv.cssText
        pv2 = parse_value(cssutils, out)
        if not pv2.wellformed or len(pv2) != 1:
            ctx.violation('string.reparse', case, {'out': out, 'what': 'output not parseable as one value'}, features=feats)
            return
        acc2 = pv2[0].uri if is_url else pv2[0].value
        if not content_equal(acc2, content) or pv2.cssText != out:
            ctx.violation('string.reparse', case, {'out': out, 'accessor_after': acc2, 'out2': pv2.cssText}, features=feats)
            return
        if is_url:
            # written through the typed interface (what replaceUrls() does with the identity function): the same URL, the same text
            ctx.count('oracle.uri-write-through')
            it.uri = acc
            acc3, out3 = it.uri, pv.cssText
            back = parse_value(cssutils, out3)
            if acc3 != acc or out3 != out or not back.wellformed or len(back) != 1 or back[0].uri != acc2:
                ctx.violation('string.uri-write-through', case, {'uri_before': acc, 'uri_after': acc3, 'out_before': out, 'out_after': out3}, features=feats)
        if any(ord(c) > 127 for c in content):
            # a sheet kept in an encoding that cannot hold the characters writes them as escapes: the content stays what it was
            for enc in ('ascii', 'iso-8859-1'):
                ctx.count('oracle.string-narrow-sheet')
                sheet = cssutils.parseString('a{x:%s}' % src)
                sheet.encoding = enc
                data = sheet.cssText
                again = cssutils.parseString(data)
                try:
                    v = again.cssRules[1].style.getProperty('x').propertyValue[0]
                    acc4 = v.uri if is_url else v.value
                except Exception:
                    acc4 = None
                if acc4 is None or not content_equal(acc4, content):
                    ctx.violation('string.narrow-sheet', dict(case, encoding=enc), {'bytes': repr(data), 'accessor_after': acc4}, features=feats)
                    return
                ctx.seen('SN' + enc + src)
        ctx.seen('S' + src)
    except Exception as e:
        ctx.violation('string.exception', case, {'tb': core.short_tb(e)}, features=feats, site=core.raise_site(e))


def stream_lists(ctx, cssutils):
    """order and separators of components are preserved"""
    comps = ['1px', 'a', '"s"', '#abc', 'url(x)', '50%', 'rgb(1, 2, 3)', '-2em', '0', 'f(1)', 'bold', '1.5']
    n = 2000 if ctx.tier == 'quick' else 40000
    for i in range(n):
        if not ctx.mine(i):
            continue
        rng = ctx.rng('list', i)
        k = rng.randint(2, 6)
        items = [rng.choice(comps) for _ in range(k)]
        seps = [rng.choice([' ', ' ', ',', '/', ', ', ' , ', ' / ']) for _ in range(k - 1)]
        src = items[0] + ''.join(s + it for s, it in zip(seps, items[1:]))
        ctx.count('evaluations')
        ctx.count('oracle.list')
        case = {'kind': 'list', 'src': src}
        for spacer in (' ', ''):
            cssutils.ser.prefs.listItemSpacer = spacer
            try:
                pv = parse_value(cssutils, src)
                out = pv.cssText

                def skeleton(text):
                    # components and separators, white space normalised
                    t = re.sub(r'\s*([,/])\s*', r'\1', text.strip())
                    t = re.sub(r'\s+', ' ', t)
                    return t.replace('rgb(1,2,3)', 'rgb(1, 2, 3)')

                if skeleton(out) != skeleton(src).replace('0px', '0'):
                    ctx.violation('list.order-separators', dict(case, listItemSpacer=spacer), {'out': out, 'skeleton_src': skeleton(src), 'skeleton_out': skeleton(out)})
                if len(pv) != k:
                    ctx.violation('list.length', dict(case, listItemSpacer=spacer), {'len': len(pv), 'expected': k})
            except Exception as e:
                ctx.violation('list.exception', case, {'tb': core.short_tb(e)}, site=core.raise_site(e))
            finally:
                cssutils.ser.prefs.listItemSpacer = ' '
        ctx.seen('L' + src)


NEST_ARGS = ['1px', '0.50px', '+.5em', '-50%', 'a', '"s, t"', '#abc', 'url(x)', 'rgb(1, 2, 3)', 'f(1)', 'max(0.50px, 1em)', 'attr(x)', 'counter(c, disc)', 'calc(1px + 2px)',
             'translate(-50%, +.5em)', 'linear-gradient(red, #00f 50%)', 'U+26', '1.5', '0']  # fmt: skip
NEST_FORMS = ['var(v, {a})', 'f({a}, {b})', 'g({a} {b})', 'var(v, var(w, {a}))', 'h(k({a}), {b})', 'calc(var(v, {a}) * 2)', '{a} var(v, {b})', 'var(v, {a}) {b}', 'f(var(v, {a}))',
              'var(V, {a})', 'VAR(v,{a})', 'var( v , {a} )']  # fmt: skip


def leaves(x, out):
    """the atoms of a projection, in order"""
    if isinstance(x, (list, tuple)):
        if x and isinstance(x[0], str) and x[0] in ('num', 'ident', 'string', 'url', 'color', 'hash', 'urange'):
            out.append(tuple(str(i) for i in x))
            return out
        for i in x:
            leaves(i, out)
    return out


def stream_nested(ctx, cssutils):
    """values inside functions and var() fallbacks: every atom of every argument is still there, in order, and the written form says the same"""
    from models import projection as P

    cases = [(f, a, b) for f in NEST_FORMS for a in NEST_ARGS for b in NEST_ARGS[:6]]
    for i, (form, a, b) in ctx.share(cases):
        if '{b}' not in form and b != NEST_ARGS[0]:
            continue
        src = form.format(a=a, b=b)
        ctx.count('evaluations')
        ctx.count('oracle.nested')
        case = {'kind': 'nested', 'src': src, 'args': [a, b]}
        try:
            core.canonical_state(cssutils)
            pv = parse_value(cssutils, src)
            if not pv.wellformed:
                ctx.count('nested.not-wellformed')
                continue
            got = leaves(P.p_propertyvalue(pv), [])
            want = []
            for arg in ([a, b] if '{b}' in form else [a]):
                want.extend(leaves(P.p_propertyvalue(parse_value(cssutils, arg)), []))
            if 'calc(var' in form:
                want.append(('num', '2', ''))
            out = pv.cssText
            back = leaves(P.p_propertyvalue(parse_value(cssutils, out)), [])
        except Exception as e:
            ctx.violation('nested.exception', case, {'tb': core.short_tb(e)}, site=core.raise_site(e))
            continue
        if got != want:
            ctx.violation('nested.atoms', case, {'got': got, 'want': want})
        elif back != got:
            ctx.violation('nested.roundtrip', case, {'out': out, 'got': got, 'after_reparse': back})
        ctx.seen('N' + form + a)


REASSIGN = ['18px', '50%', '1.5', '0', '-2em', '+3', '#abc', 'red', 'rgb(1, 2, 3)', 'url(a.png)', '"s"', 'auto', 'calc(1px + 2px)', '0.5em', '100', '10.50%', 'hsl(120, 50%, 50%)', 'url("b c.png")',
            # spellings that differ from a neighbour in letter case or in an escape only: for strings and URLs that is another content
            '"S"', 'url(A.png)', 'url("B c.png")', '"\\73 "', 'url(a.PNG)', '"s" "t"', '"S" "t"', 'RED', '18PX']


def value_view(v):
    out = [type(v).__name__]
    for attr in ('cssText', 'value', 'type', 'dimension', 'uri', 'colorType', 'red', 'green', 'blue', 'alpha'):
        try:
            out.append(repr(getattr(v, attr, None)))
        except Exception as e:
            out.append('EXC ' + type(e).__name__)
    return out


def reassign_declaration(ctx, cssutils, case):
    first, second, door = case['first'], case['second'], case['door']
    try:
        core.canonical_state(cssutils, raising=False)
        name = 'content' if door == 'attribute' else 'x'
        style = cssutils.parseString('a{%s:%s}' % (name, first)).cssRules[0].style
        fresh = cssutils.parseString('a{%s:%s}' % (name, second)).cssRules[0].style
        if door == 'setProperty':
            style.setProperty(name, second)
        elif door == 'setitem':
            style[name] = second
        elif door == 'property-value':
            style.getProperty(name).value = second
        elif door == 'property-propertyValue':
            style.getProperty(name).propertyValue = second
        else:
            style.content = second
        got = [value_view(x) for x in style.getProperty(name).propertyValue] + [style.getPropertyValue(name), style.cssText]
        want = [value_view(x) for x in fresh.getProperty(name).propertyValue] + [fresh.getPropertyValue(name), fresh.cssText]
        core.canonical_state(cssutils)
        if got != want:
            ctx.violation('value.reassign-declaration', case, {'after_reassignment': got, 'fresh_object': want})
    except Exception as e:
        ctx.violation('value.exception', case, {'tb': core.short_tb(e)}, site=core.raise_site(e))


def stream_reassign(ctx, cssutils):
    """a value object whose text is set again denotes what a fresh object made from that text denotes (nothing of the old value stays)"""
    pairs = [(a, b) for a in REASSIGN for b in REASSIGN if a != b]
    for i, (first, second) in ctx.share(pairs):
        case = {'kind': 'reassign', 'first': first, 'second': second}
        ctx.count('oracle.reassign')
        ctx.count('evaluations')
        try:
            core.canonical_state(cssutils, raising=False)
            v = cssutils.parseString('a{x:%s}' % first).cssRules[0].style.getProperty('x').propertyValue[0]
            fresh = cssutils.parseString('a{x:%s}' % second).cssRules[0].style.getProperty('x').propertyValue[0]
            if type(v) is not type(fresh):
                core.canonical_state(cssutils)
                continue  # a value object accepts texts of its own kind only
            v.cssText = second
            got, want = value_view(v), value_view(fresh)
            core.canonical_state(cssutils)
            if got != want:
                ctx.violation('value.reassign', case, {'after_reassignment': got, 'fresh_object': want})
            ctx.seen(['re', type(v).__name__, first, second])
        except Exception as e:
            ctx.violation('value.exception', case, {'tb': core.short_tb(e)}, site=core.raise_site(e))
    # the same through the doors of the declaration block: a declaration that is set again holds the new value, whatever the old one was
    doors = ['setProperty', 'setitem', 'property-value', 'property-propertyValue', 'attribute']
    for i, (first, second) in ctx.share(pairs):
        for door in doors:
            case = {'kind': 'reassign-decl', 'first': first, 'second': second, 'door': door}
            ctx.count('oracle.reassign-declaration')
            ctx.count('evaluations')
            reassign_declaration(ctx, cssutils, case)
            ctx.seen(['re-d', door, first, second])
    core.canonical_state(cssutils)


def run_worker(ctx):
    cssutils, _ = core.import_repo()
    core.canonical_state(cssutils)
    con = Contracts(ctx, cssutils)
    try:
        stream_reassign(ctx, cssutils)
        stream_numbers(ctx, cssutils)
        stream_hashes(ctx, cssutils)
        stream_colors(ctx, cssutils)
        stream_strings(ctx, cssutils)
        stream_lists(ctx, cssutils)
        stream_nested(ctx, cssutils)
    finally:
        con.remove()


def replay(ctx, case):
    if case.get('kind') == 'reassign':
        cssutils, _ = core.import_repo()
        core.canonical_state(cssutils, raising=False)
        v = cssutils.parseString('a{x:%s}' % case['first']).cssRules[0].style.getProperty('x').propertyValue[0]
        fresh = cssutils.parseString('a{x:%s}' % case['second']).cssRules[0].style.getProperty('x').propertyValue[0]
        v.cssText = case['second']
        got, want = value_view(v), value_view(fresh)
        core.canonical_state(cssutils)
        if got != want:
            ctx.violation('value.reassign', case, {'after_reassignment': got, 'fresh_object': want})
        return
    if case.get('kind') == 'reassign-decl':
        cssutils, _ = core.import_repo()
        reassign_declaration(ctx, cssutils, case)
        core.canonical_state(cssutils)
        return
    _replay_other(ctx, case)


def _replay_other(ctx, case):
    cssutils, _ = core.import_repo()
    core.canonical_state(cssutils)
    kind = case.get('kind')
    con = Contracts(ctx, cssutils)
    try:
        if kind == 'number':
            olz = case.get('prefs', {}).get('omitLeadingZero', False)
            cssutils.ser.prefs.omitLeadingZero = olz
            pv = parse_value(cssutils, case['src'])
            out = pv.cssText
            judge_number(ctx, case['src'], out, {'omitLeadingZero': olz}, 'serialise')
        elif kind == 'hash':
            cssutils.ser.prefs.minimizeColorHash = case.get('prefs', {}).get('minimizeColorHash', True)
            pv = parse_value(cssutils, case['src'])
            if expand_hash(pv.cssText.strip()) != expand_hash(case['src']):
                ctx.violation('hash.serialise', case, {'out': pv.cssText})
        elif kind == 'color' and 'exp' in case:
            judge_color(ctx, cssutils, case['src'], tuple(case['exp']), 1, case.get('alpha', 1.0), 'replay')
        elif kind == 'string-rt':
            judge_string(ctx, cssutils, case['src'], case['content'], case['url'], ['string.escaped-other-quote'])
        elif kind in ('string', 'list', 'color', 'contract', 'contract-hash'):
            pv = parse_value(cssutils, case.get('src', '1px'))
            pv.cssText
            ctx.note('replay of %s cases re-runs parsing and the contracts only' % kind)
    finally:
        cssutils.ser.prefs.useDefaults()
        con.remove()
