"""C19 - URL enumeration/replacement exact; flattening @imports preserves meaning (DESIGN section 6, C19).

 enumerate   generated sheets whose url() values (in any property, at top level, in nested @media, @page, margin boxes, @font-face)
             and @import targets are known by construction: list(getUrls(sheet)) must be that list - each once, imports first,
             then document order
 replace     replaceUrls with a recording replacer: called exactly once per URL, afterwards getUrls gives the replaced list, the
             projection of the sheet with URLs masked is unchanged, and the identity replacer leaves cssText as it is
 flatten     import trees over a virtual file system (depth <= 4; targets in the same / child / parent / sibling directory, root-relative,
             absolute on the same and on another host, scheme-relative; media on any edge; missing targets; targets holding rules that
             cannot be wrapped): the result of resolveImports is compared with an oracle expansion of the file system - same rules in
             cascade order under the same effective media, every url() resolving (from the combined sheet's location, urljoin) to the
             absolute URL it had in its own sheet, kept @imports pointing at the same absolute target, each target fetched once
 combine     the same trees written to real files and run through cssutils.script.csscombine (minified / normal, target encodings)"""

import os
import shutil
import tempfile
from urllib.parse import urljoin

from engine import core
from models import projection

PROPERTY = 'C19'
LEVEL = 'exploration'
LEVEL_TEXT = (
    'quick 6k / thorough 150k generated sheets for enumerate+replace; quick 5k / thorough 120k random import trees (depth <= 4, 11 href forms, '
    '12 url() forms, media on edges, missing and unwrappable targets) for flatten; quick 150 / thorough 3000 trees as real files for csscombine.'
)
LEVEL_NOTE = 'trusted: the oracle expansion in this file (urllib.parse.urljoin as URL resolver) and models/projection.py'
TECHNIQUE = 'runtime monitoring: construction oracle for URL lists, recording replacer, reference expansion of a virtual file system compared with the flattened sheet, fetch log'
DESIGN_REF = 'DESIGN.md section 6, C19'
RULE = 'inputs x configurations; distinct_nontrivial = distinct (href form, url form, media-on-edge, depth, target kind) tuples covered'
EXHAUSTIVE = {'quick': False, 'thorough': False}
ASSUMPTIONS = [
    'a kept @import is placed with the other imports at the start of the combined sheet (CSS allows them nowhere else); only the relative order of the expanded rules is compared',
    'URLs are compared after urljoin() against the sheet location; "." and ".." segments are normalised by urljoin',
    'comments added by resolveImports (/* START @import ... */) are ignored',
]
MIN_EVENTS = {
    'quick': {'oracle.enumerate': 5000, 'oracle.replace': 3500, 'oracle.flatten': 4000, 'oracle.flatten-input': 4000, 'urls.compared': 18000, 'edges.expanded': 5000, 'edges.kept': 800, 'oracle.combine': 100},
    'thorough': {'oracle.enumerate': 120000, 'oracle.replace': 90000, 'oracle.flatten': 100000, 'oracle.flatten-input': 100000, 'urls.compared': 450000, 'edges.expanded': 120000, 'edges.kept': 20000, 'oracle.combine': 2400},
}

TOP = 'http://h/d0/d1/top.css'
URL_FORMS = [
    ('plain', 'img/%s.png'), ('same-dir', '%s.png'), ('dot', './%s.png'), ('parent', '../i/%s.png'), ('parent2', '../../%s.png'), ('root', '/abs/%s.png'),
    ('absolute', 'http://x/p/%s.png'), ('scheme-relative', '//o/p/%s.png'), ('query', 'q/%s.png?v=1'), ('fragment', 'q/%s.svg#frag'), ('percent', 'a%%20b/%s.png'), ('data', 'data:image/png;base64,AAAA%s'),
]  # fmt: skip
HREF_FORMS = [
    ('same-dir', '%s.css'), ('child', 'sub/%s.css'), ('deeper', 'sub/x/%s.css'), ('dot', './%s.css'), ('parent', '../%s.css'), ('sibling', '../sib/%s.css'),
    ('root', '/r/%s.css'), ('root-top', '/%s.css'), ('absolute-same-host', 'http://h/q/%s.css'), ('absolute-other-host', 'http://o/z/%s.css'), ('scheme-relative', '//o/y/%s.css'),
]  # fmt: skip
URL_PROPS = ['background', 'background-image', 'list-style-image', 'cursor', 'content', 'src', 'border-image']
MEDIA = [None, None, None, 'print', 'tv, print', 'screen and (min-width:1px)', 'screen and (min-width:100px), screen and (orientation:landscape)', 'screen and (color), screen']


# ------------------------------------------------------------------------------------------------------------ part A
def gen_sheet(rng):
    """returns (text, imports, urls-in-document-order, features)"""
    n = [0]
    feats = set()
    urls = []

    def url():
        n[0] += 1
        kind, form = rng.choice(URL_FORMS)
        u = form % ('u%d' % n[0])
        feats.add('url.' + kind)
        return u

    def decls(k):
        out = []
        for _ in range(k):
            r = rng.random()
            if r < 0.55:
                u = url()
                urls.append(u)
                q = rng.choice(['url(%s)', 'url("%s")', "url('%s')", 'url( %s )'])
                extra = rng.choice(['', ' no-repeat', ' 0 0'])
                out.append('%s:%s%s' % (rng.choice(URL_PROPS), q % u, extra))
            elif r < 0.7:
                u1, u2 = url(), url()
                urls.extend([u1, u2])
                out.append('cursor:url(%s), url("%s"), pointer' % (u1, u2))
            elif r < 0.725:
                u = url()
                feats.add('url.inside-function')
                urls.append(u)
                out.append('x:f(url(%s))' % u)
            else:
                out.append(rng.choice(['top:0', 'color:red', 'content:"url(not-a-url)"', 'font-family:urlish']))
        return ';'.join(out)

    imports = []
    parts = []
    for _ in range(rng.randint(0, 3)):
        n[0] += 1
        h = rng.choice(HREF_FORMS)[1] % ('i%d' % n[0])
        imports.append(h)
        parts.append(rng.choice(['@import "%s";', '@import url(%s);', '@import url("%s") print;']) % h)
    for _ in range(rng.randint(1, 5)):
        r = rng.random()
        if r < 0.45:
            parts.append('s%d{%s}' % (len(parts), decls(rng.randint(1, 3))))
        elif r < 0.65:
            inner = ''.join('m%d{%s}' % (j, decls(rng.randint(1, 2))) for j in range(rng.randint(1, 2)))
            if rng.random() < 0.3:
                inner += '@media tv{n{%s}}' % decls(1)
            parts.append('@media print{%s}' % inner)
        elif r < 0.8:
            feats.add('page')
            d0 = decls(rng.randint(1, 2))
            boxes = ''.join('@%s{%s}' % (b, decls(1)) for b in rng.sample(['top-left', 'bottom-center', 'right-middle'], rng.randint(0, 2)))
            if boxes:
                feats.add('page.margin-box')
            parts.append('@page{%s;%s}' % (d0, boxes) if boxes else '@page{%s}' % d0)
        elif r < 0.9:
            parts.append('@font-face{font-family:f;%s}' % decls(1))
        else:
            parts.append('/* url(in-comment.png) */')
    return ''.join(parts), imports, urls, feats


def fetch_none(url):
    return None


def part_a(ctx, c, rng, i):
    text, imports, urls, feats = gen_sheet(rng)
    case = {'kind': 'sheet', 'text': text}
    core.canonical_state(c, raising=False)
    parser = c.CSSParser(fetcher=fetch_none)
    try:
        sheet = parser.parseString(text, href=TOP)
        got = list(c.getUrls(sheet))
    except Exception as e:
        ctx.violation('enumerate.exception', case, {'tb': core.short_tb(e)}, site=core.raise_site(e), features=sorted(feats))
        return
    ctx.count('oracle.enumerate')
    want = imports + urls
    ef = set()
    if 'url.inside-function' in feats:
        ef.add('url.inside-function')
    if got != want:
        f2 = set(ef)
        if sorted(got) == sorted(want) and 'page.margin-box' in feats:
            f2.add('page.margin-box-before-page-declarations')
        ctx.violation('enumerate', case, {'got': got, 'want': want}, features=sorted(f2))
        return
    # ---- replace
    calls = []

    def rep(u):
        calls.append(u)
        return 'R/' + u.replace('data:', 'data-')

    before_proj = proj_masked(c, sheet)
    try:
        c.replaceUrls(sheet, rep)
        after = list(c.getUrls(sheet))
    except Exception as e:
        ctx.violation('replace.exception', case, {'tb': core.short_tb(e)}, site=core.raise_site(e), features=sorted(ef))
        return
    ctx.count('oracle.replace')
    if sorted(calls) != sorted(want):
        ctx.violation('replace', case, {'what': 'replacer calls', 'calls': calls, 'want': want}, features=sorted(ef))
        return
    if after != ['R/' + u.replace('data:', 'data-') for u in want]:
        ctx.violation('replace', case, {'what': 'URLs after replacement', 'got': after, 'want': ['R/' + u for u in want]}, features=sorted(ef))
        return
    after_proj = proj_masked(c, sheet)
    d = projection.diff(before_proj, after_proj)
    if d:
        ctx.violation('replace', case, {'what': 'something else than the URLs changed', 'diff': str(d)[:400]}, features=sorted(ef))
        return
    # ---- identity replacer
    sheet2 = parser.parseString(text, href=TOP)
    t0 = sheet2.cssText
    c.replaceUrls(sheet2, lambda u: u)
    if sheet2.cssText != t0:
        ctx.violation('replace', case, {'what': 'identity replacer changed the serialisation', 'before': t0.decode()[:300], 'after': sheet2.cssText.decode()[:300]}, features=sorted(ef))
        return
    ctx.seen(['A', tuple(sorted(feats)), len(want)])


def proj_masked(c, sheet):
    """projection of a copy of the sheet in which every URL is replaced by a constant"""
    copy = c.CSSParser(fetcher=fetch_none).parseString(sheet.cssText, href=TOP)
    for r in copy.cssRules:
        if type(r).__name__ == 'CSSImportRule':
            r.href = 'X'
    import re

    text = re.sub(r'url\((?:[^)"\']|"[^"]*"|\'[^\']*\')*\)', 'url(X)', copy.cssText.decode('utf-8'))
    return projection.project(c.CSSParser(fetcher=fetch_none).parseString(text), comments=True, with_valid=False)


# ------------------------------------------------------------------------------------------------------------ part B
class Tree:
    """a virtual file system of sheets; the oracle expansion works on the abstract description"""

    def __init__(self, rng, max_depth, top=TOP, href_forms=None, url_forms=None):
        self.rng = rng
        self.top = top
        self.href_forms = href_forms or HREF_FORMS
        self.url_forms = url_forms or URL_FORMS[:11]
        self.files = {}  # abs url -> list of items
        self.missing = set()
        self.n = 0
        self.feats = set()
        self.edges = 0
        self.build(top, 0, max_depth)

    def new(self):
        self.n += 1
        return self.n

    def build(self, url, depth, max_depth):
        rng = self.rng
        items = []
        kids = rng.randint(0, 3) if depth < max_depth else 0
        if depth == 0:
            kids = max(1, kids)
        shape = rng.random() if depth else 1.0
        if shape < 0.06:
            # a target that exists and holds nothing
            self.feats.add('target.empty')
            self.files[url] = []
            return
        for _ in range(kids):
            kind, form = rng.choice(self.href_forms)
            href = form % ('f%d' % self.new())
            target = urljoin(url, href)
            media = rng.choice(MEDIA)
            self.feats.add('href.' + kind)
            if media:
                self.feats.add('edge.media')
            self.edges += 1
            items.append(('import', href, media, target))
            if rng.random() < 0.15:
                self.missing.add(target)
                self.feats.add('target.missing')
            elif target not in self.files:
                self.build(target, depth + 1, max_depth)
        special = rng.random()
        nstyles = rng.randint(1, 3)
        if shape < 0.12 and kids:
            # nothing of its own, only what it imports
            self.feats.add('target.imports-only')
            nstyles, special = 0, 1.0
        for _ in range(nstyles):
            sid = 's%d' % self.new()
            if rng.random() < 0.2:
                sid += '[a] z'  # an attribute selector and a descendant: more than one token for the parser of the combined sheet
            urls = []
            for _ in range(rng.randint(0, 2)):
                k, f = rng.choice(self.url_forms)
                self.feats.add('url.' + k)
                urls.append(f % ('g%d' % self.new()))
            items.append(('style', sid, urls))
        if special < 0.12:
            self.feats.add('target.unwrappable')
            items.append(('fontface', 'ff%d' % self.new(), ['font/%d.woff' % self.new()]))
        elif special < 0.2:
            self.feats.add('target.unwrappable')
            items.append(('media', 'tty', 'w%d' % self.new(), ['mm/%d.png' % self.new()]))
        elif special < 0.25:
            self.feats.add('target.unwrappable')
            items.append(('page', ['pg/%d.png' % self.new()]))
        self.files[url] = items

    def text(self, url):
        out = []
        for it in self.files[url]:
            if it[0] == 'import':
                out.append('@import "%s"%s;' % (it[1], ' ' + it[2] if it[2] else ''))
            elif it[0] == 'style':
                # (selectors are written with padding inside the brackets: the same selector to every parser, also the one that drops comments)
                out.append('%s{top:0;%s}' % (it[1].replace('[a]', '[ a ]'), ';'.join('background:url(%s)' % u for u in it[2])))
            elif it[0] == 'fontface':
                out.append('@font-face{font-family:%s;src:url(%s)}' % (it[1], it[2][0]))
            elif it[0] == 'media':
                out.append('@media %s{%s{background:url(%s)}}' % (it[1], it[2], it[3][0]))
            elif it[0] == 'page':
                out.append('@page{background:url(%s)}' % it[1][0])
        return ''.join(out)

    def expand(self, url, media_stack, path):
        """full semantic expansion: list of entries (kind, media stack, id, [absolute urls], path of edges)"""
        out = []
        for it in self.files[url]:
            if it[0] == 'import':
                _, href, media, target = it
                stack = media_stack + ((media,) if media else ())
                edge = path + ((target, media),)
                if target in self.missing or target not in self.files:
                    out.append(('missing', stack, target, [], edge))
                elif any(e[0] == target for e in path) or target == self.top:
                    out.append(('cycle', stack, target, [], edge))
                else:
                    # (a marker: the sheet was reached, whatever it holds - an empty one leaves no other trace)
                    out.append(('reached', stack, target, [], edge))
                    out.extend(self.expand(target, stack, edge))
            elif it[0] == 'style':
                out.append(('style', media_stack, it[1], [urljoin(url, u) for u in it[2]], path))
            elif it[0] == 'fontface':
                out.append(('fontface', media_stack, it[1], [urljoin(url, it[2][0])], path))
            elif it[0] == 'media':
                out.append(('style', media_stack + (it[1],), it[2], [urljoin(url, it[3][0])], path))
            elif it[0] == 'page':
                out.append(('page', media_stack, '@page', [urljoin(url, it[1][0])], path))
        return out


def norm_media(c, m):
    """a media list as text, compared without regard to spelling (by the check's own reading, not by cssutils' MediaList)"""
    import re

    m = re.sub(r'/\*.*?\*/', ' ', m, flags=re.S).lower()
    return ','.join(re.sub(r'\s*([():])\s*', r'\1', ' '.join(q.split())).strip() for q in m.split(','))


def read_result(c, sheet, base):
    """entries of the combined sheet: (kind, media stack, id, [absolute urls]) and the kept imports"""
    entries, kept = [], []

    def uris(style):
        return [urljoin(base, v.uri) for p in style.getProperties(all=True) for v in p.propertyValue if v.type == 'URI']

    def rec(rules, stack):
        for r in rules:
            cls = type(r).__name__
            if cls == 'CSSStyleRule':
                entries.append(('style', stack, r.selectorText, uris(r.style)))
            elif cls == 'CSSMediaRule':
                rec(r.cssRules, stack + (r.media.mediaText,))
            elif cls == 'CSSFontFaceRule':
                entries.append(('fontface', stack, r.style.getPropertyValue('font-family'), uris(r.style)))
            elif cls == 'CSSPageRule':
                entries.append(('page', stack, '@page', uris(r.style)))
            elif cls == 'CSSImportRule':
                kept.append((urljoin(base, r.href), stack + ((r.media.mediaText,) if r.media.mediaText != 'all' else ())))

    rec(sheet.cssRules, ())
    return entries, kept


def input_state(sheet):
    """what a caller can read off the sheet it handed to resolveImports: the texts of the sheet and of every sheet it imports, and
    whether its rules still name it as their sheet"""
    texts, links = [], []

    def rec(sh):
        texts.append(sh.cssText.decode('utf-8', 'replace'))
        for r in sh.cssRules:
            links.append(r.parentStyleSheet is sh)
            if type(r).__name__ == 'CSSImportRule' and r.styleSheet is not None:
                rec(r.styleSheet)

    rec(sheet)
    return {'texts': texts, 'links': links}


def part_b(ctx, c, rng, i, depth=None):
    tree = Tree(rng, depth or rng.choice([1, 2, 2, 3, 4]))
    case = {'kind': 'tree', 'files': {u: tree.text(u) for u in tree.files}, 'missing': sorted(tree.missing)}
    run_tree(ctx, c, tree.files and tree, case, sorted(tree.feats))


def run_tree(ctx, c, tree, case, feats):
    log = []

    def fetcher(url):
        log.append(url)
        if url in tree.missing or url not in tree.files:
            return None
        return None, tree.text(url)

    core.canonical_state(c, raising=False)
    try:
        sheet = c.CSSParser(fetcher=fetcher).parseString(tree.text(TOP), href=TOP)
        before = input_state(sheet)
        result = c.resolveImports(sheet)
        entries, kept = read_result(c, result, TOP)
        # ---- the sheet that was handed in (and the sheets it imports) are input, not material: they read as before, and flattening
        # the same sheet once more gives the same result
        ctx.count('oracle.flatten-input')
        after = input_state(sheet)
        cf = set()
        if after['texts'] != before['texts']:
            cf.add('input.urls-rewritten' if len(after['texts']) == len(before['texts']) else 'input.sheets-changed')
        if after['links'] != before['links']:
            cf.add('input.rules-reparented')
        if not cf:
            n_log = len(log)
            again = read_result(c, c.resolveImports(sheet), TOP)
            del log[n_log:]
            if again != (entries, kept):
                cf.add('repeat.other-result')
        if cf:
            ctx.violation('flatten.input-consumed', case, {'changed': sorted(cf), 'texts_before': before['texts'][:3], 'texts_after': after['texts'][:3], 'links_after': after['links'][:12]}, features=sorted(cf))
    except Exception as e:
        ctx.violation('flatten.exception', case, {'tb': core.short_tb(e)}, site=core.raise_site(e), features=feats)
        return
    ctx.count('oracle.flatten')
    full = tree.expand(TOP, (), ())
    nm = lambda st: tuple(norm_media(c, m) for m in st)  # noqa: E731
    # ---- kept imports must be edges of the tree, with the same effective media
    edges = {}
    for e in full:
        for j in range(1, len(e[4]) + 1):
            pth = e[4][:j]
            st = nm(tuple(m for _, m in pth if m))
            edges.setdefault((pth[-1][0], st), []).append(pth)
    removed_paths = []
    problems = []
    vf = set()
    for target, stack in kept:
        ctx.count('edges.kept')
        key = (target, nm(stack))
        if key not in edges:
            cands = [k for k in edges if k[1] == nm(stack)]
            problems.append('kept @import resolves to %s under media %r: no such edge (edges under that media: %s)' % (target, stack, [k[0] for k in cands][:4]))
            vf.add('kept-import.wrong-target')
        else:
            removed_paths.append(edges[key][0])
    # ---- kept imports keep their cascade order among themselves (the order in which a depth-first expansion meets their edges)
    if len(kept) > 1 and not problems:
        first_seen = {}
        for pos, e in enumerate(full):
            for j in range(1, len(e[4]) + 1):
                pth = e[4][:j]
                key = (pth[-1][0], nm(tuple(m for _, m in pth if m)))
                first_seen.setdefault(key, (pos, j))
        order = [first_seen.get((t, nm(st))) for t, st in kept]
        if None not in order and order != sorted(order):
            problems.append('kept @imports are not in cascade order: %s' % [t for t, _ in kept][:6])
            vf.add('kept-imports.order')
    # ---- the expanded rules: full expansion minus the subtrees of kept edges, same order, same media, same absolute URLs
    def under_removed(path):
        return any(path[: len(rp)] == rp for rp in removed_paths)

    want = [(k, nm(st), ident, urls) for (k, st, ident, urls, path) in full if k in ('style', 'fontface', 'page') and not under_removed(path)]
    # missing targets that were not kept?
    for k, st, target, _, path in full:
        if k == 'missing' and not under_removed(path[:-1]) and (target, nm(st)) not in [(t, nm(s)) for t, s in kept]:
            problems.append('missing target %s is neither expanded nor kept as @import' % target)
            vf.add('missing-target-lost')
    got = [(k, nm(st), ident, urls) for (k, st, ident, urls) in entries]
    ctx.count('edges.expanded', len({p for e in full for p in [e[4]] if not under_removed(e[4])}))
    if [(g[0], g[1], g[2]) for g in got] != [(w[0], w[1], w[2]) for w in want]:
        problems.append('rules/order/media differ: got %s want %s' % ([(g[2], g[1]) for g in got][:12], [(w[2], w[1]) for w in want][:12]))
        vf.add('rules-order-or-media-differ')
    else:
        for g, w in zip(got, want):
            ctx.count('urls.compared', len(w[3]))
            if g[3] != w[3]:
                problems.append('url() of %s resolves to %s, in its own sheet it was %s' % (g[2], g[3], w[3]))
                for a, b in zip(g[3], w[3]):
                    if a != b:
                        vf.add(classify_url_diff(a, b))
                break
    # ---- every target fetched once
    dup = sorted({u for u in log if log.count(u) > 1})
    if dup:
        if all(u in tree.missing or u not in tree.files for u in dup):
            vf.add('fetch.missing-target-twice')
        else:
            vf.add('fetch.available-target-twice')
        problems.append('fetched more than once: %s' % dup[:4])
    if problems:
        ctx.violation('flatten', case, {'problems': problems[:4], 'kept': [list(k) for k in kept][:6], 'result': result.cssText.decode('utf-8', 'replace')[:500]}, features=sorted(vf))
        return
    ctx.seen(['B', tuple(feats)])


def classify_url_diff(got, want):
    from urllib.parse import urlsplit

    g, w = urlsplit(got), urlsplit(want)
    if (w.query or w.fragment) and (g.query, g.fragment) != (w.query, w.fragment) and g.path == w.path:
        return 'url.query-or-fragment-dropped'
    if '%25' in got and '%' in want:
        return 'url.percent-quoted-again'
    if g.netloc != w.netloc:
        return 'url.host-lost'
    return 'url.path-wrong'


# ------------------------------------------------------------------------------------------------------------ part C
def part_c(ctx, c, rng, i):
    """the same kind of tree as real files through csscombine"""
    # (hrefs like '../x.css' climb: the tree's root sits five levels inside a directory of its own, so that nothing is ever written to -
    # or read from - a directory that another run shares)
    base = tempfile.mkdtemp(prefix='c19-', dir=os.environ.get('VERIF_TMP') or None)
    root = os.path.join(base, 'p0', 'p1', 'p2', 'p3', 'p4')
    os.makedirs(root)
    try:
        top_path = os.path.join(root, 'd0', 'd1', 'top.css')
        top_url = c.helper.path2url(top_path)
        if top_url.startswith('file:/') and not top_url.startswith('file:///'):
            top_url = 'file://' + top_url[5:]
        rel_hrefs = [f for f in HREF_FORMS if f[0] in ('same-dir', 'child', 'deeper', 'dot', 'parent', 'sibling')]
        rel_urls = [f for f in URL_FORMS if f[0] in ('plain', 'same-dir', 'dot', 'parent', 'parent2', 'absolute', 'query', 'fragment', 'percent')]
        tree = Tree(rng, rng.choice([1, 2, 3]), top=top_url, href_forms=rel_hrefs, url_forms=rel_urls)

        def path_of(url):
            from urllib.request import url2pathname
            from urllib.parse import urlsplit

            return url2pathname(urlsplit(url).path)

        for url in tree.files:
            p = path_of(url)
            os.makedirs(os.path.dirname(p), exist_ok=True)
            with open(p, 'w', encoding='utf-8') as f:
                f.write(tree.text(url))
        minify = rng.random() < 0.5
        target_enc = rng.choice([None, 'utf-8', 'ascii', 'iso-8859-1'])
        case = {'kind': 'files', 'files': {u.replace(root, '<root>').replace(base, '<base>'): tree.text(u) for u in tree.files}, 'missing': sorted(m.replace(root, '<root>').replace(base, '<base>') for m in tree.missing), 'minify': minify,
                'targetencoding': target_enc}  # fmt: skip
        core.canonical_state(c, raising=False)
        s = core.Sentinels(c)
        try:
            out = c.script.csscombine(path=top_path, minify=minify, targetencoding=target_enc)
        except Exception as e:
            ctx.violation('combine.exception', case, {'tb': core.short_tb(e)}, site=core.raise_site(e))
            return
        ctx.count('oracle.combine')
        d = s.diff()
        if d:
            ctx.violation('combine', case, {'what': 'csscombine left global state changed', 'changed': d})
            return
        if i % 2 == 0:
            # an application that has set up its own serializer preferences gets the same combined sheet, and keeps its preferences
            ctx.count('oracle.combine-under-app-prefs')
            which = (i // 2) % 4
            try:
                pr = c.ser.prefs
                if which == 0:
                    pr.useMinified()
                elif which == 1:
                    pr.keepAllProperties, pr.keepComments, pr.indent = False, False, '\t'
                elif which == 2:
                    pr.validOnly, pr.keepUnknownAtRules, pr.lineSeparator = True, False, '\r\n'
                else:
                    pr.resolveVariables, pr.omitLastSemicolon, pr.importHrefFormat = False, False, 'uri'
                s2 = core.Sentinels(c)
                out2 = c.script.csscombine(path=top_path, minify=minify, targetencoding=target_enc)
                d2 = s2.diff()
            except Exception as e:
                c.ser.prefs.useDefaults()
                ctx.violation('combine.exception', dict(case, app_prefs=which), {'tb': core.short_tb(e)}, site=core.raise_site(e))
                return
            c.ser.prefs.useDefaults()
            if d2:
                ctx.violation('combine', dict(case, app_prefs=which), {'what': "csscombine changed the application's serializer preferences", 'changed': d2})
                return
            if out2 != out:
                ctx.violation('combine', dict(case, app_prefs=which), {'what': "the combined sheet depends on the application's serializer preferences", 'default': out.decode('utf-8', 'replace')[:300], 'under_app_prefs': out2.decode('utf-8', 'replace')[:300]})
                return
        result = c.CSSParser(fetcher=fetch_none).parseString(out, href=top_url)
        entries, kept = read_result(c, result, top_url)
        full = tree.expand(top_url, (), ())
        nm = lambda st: tuple(norm_media(c, m) for m in st)  # noqa: E731
        fix = lambda u: ('file://' + u[5:]) if u.startswith('file:/') and not u.startswith('file:///') else u  # noqa: E731
        kept_keys = [(fix(t), nm(st)) for t, st in kept]
        removed = []
        for e in full:
            for j in range(1, len(e[4]) + 1):
                pth = e[4][:j]
                if (fix(pth[-1][0]), nm(tuple(m for _, m in pth if m))) in kept_keys:
                    removed.append(pth)
        want = [(k, nm(st), ident, [fix(u) for u in urls]) for (k, st, ident, urls, path) in full
                if k in ('style', 'fontface', 'page') and not any(path[: len(rp)] == rp for rp in removed)]  # fmt: skip
        got = [(k, nm(st), ident, [fix(u) for u in urls]) for (k, st, ident, urls) in entries]
        if got != want:
            vf = set()
            if [(g[0], g[1], g[2]) for g in got] == [(w[0], w[1], w[2]) for w in want]:
                for g, w in zip(got, want):
                    for a, b in zip(g[3], w[3]):
                        if a != b:
                            vf.add(classify_url_diff(a, b))
            ctx.violation('combine', case, {'got': str(got).replace(root, '<root>').replace(base, '<base>')[:500], 'want': str(want).replace(root, '<root>').replace(base, '<base>')[:500], 'out': out.decode('utf-8', 'replace')[:400]}, features=sorted(vf))
    finally:
        shutil.rmtree(base, ignore_errors=True)


def run_worker(ctx):
    c, _ = core.import_repo()
    import cssutils.script  # noqa: F401

    quick = ctx.tier == 'quick'
    n = 6000 if quick else 150000
    for i in range(n):
        if ctx.mine(i):
            ctx.count('evaluations')
            part_a(ctx, c, ctx.rng('a', i), i)
    n = 5000 if quick else 120000
    for i in range(n):
        if ctx.mine(i):
            ctx.count('evaluations')
            part_b(ctx, c, ctx.rng('b', i), i)
    n = 400 if quick else 8000
    for i in range(n):
        if ctx.mine(i):
            ctx.count('evaluations')
            part_c(ctx, c, ctx.rng('c', i), i)
    ctx.sample({'tree': {TOP: '@import "sub/f1.css" print;s2{top:0}', 'http://h/d0/d1/sub/f1.css': 's3{background:url(../i/g4.png)}'},
                'expect': '@media print{s3{background:url(i/g4.png)}} s2{...}: url resolves to http://h/d0/d1/i/g4.png from both places'})


class _ReplayTree:
    def __init__(self, files, missing):
        import re

        self.missing = set(missing)
        self.top = TOP
        self.texts = files
        self.files = {}
        for url, text in files.items():
            items = []
            for m in re.finditer(r'@import "([^"]*)"( [^;]*)?;|(\w+(?:\[ a \] z)?)\{top:0;([^}]*)\}|@font-face\{font-family:(\w+);src:url\(([^)]*)\)\}|@media (\w+)\{(\w+)\{background:url\(([^)]*)\)\}\}|@page\{background:url\(([^)]*)\)\}', text):
                if m.group(1) is not None:
                    items.append(('import', m.group(1), (m.group(2) or '').strip() or None, urljoin(url, m.group(1))))
                elif m.group(3):
                    items.append(('style', m.group(3).replace('[ a ]', '[a]'), re.findall(r'url\(([^)]*)\)', m.group(4))))
                elif m.group(5):
                    items.append(('fontface', m.group(5), [m.group(6)]))
                elif m.group(7):
                    items.append(('media', m.group(7), m.group(8), [m.group(9)]))
                else:
                    items.append(('page', [m.group(10)]))
            self.files[url] = items

    text = lambda self, url: self.texts[url]  # noqa: E731
    expand = Tree.expand


def replay(ctx, case):
    c, _ = core.import_repo()
    import cssutils.script  # noqa: F401

    if case['kind'] == 'tree':
        tree = _ReplayTree(case['files'], case['missing'])
        run_tree(ctx, c, tree, case, [])
    elif case['kind'] == 'sheet':
        import random

        # re-derive the expectation from the text is not possible: replay through the generator is keyed by the text
        text = case['text']
        parser = c.CSSParser(fetcher=fetch_none)
        sheet = parser.parseString(text, href=TOP)
        import re

        imports = [m.group(1) or m.group(2) for m in re.finditer(r'@import (?:"([^"]*)"|url\("?([^)"]*)"?\))', text)]
        body = re.sub(r'@import [^;]*;', '', text)
        body = re.sub(r'/\*.*?\*/', '', body)
        body = re.sub(r'content:"url\(not-a-url\)"', '', body)
        urls = [m.group(1).strip().strip('"\'') for m in re.finditer(r'url\(([^)]*)\)', body)]
        got = list(c.getUrls(sheet))
        ctx.count('oracle.enumerate')
        if got != imports + urls:
            feats = set()
            if 'f(url(' in text:
                feats.add('url.inside-function')
            if sorted(got) == sorted(imports + urls) and '@page' in text:
                feats.add('page.margin-box-before-page-declarations')
            ctx.violation('enumerate', case, {'got': got, 'want': imports + urls}, features=sorted(feats))
