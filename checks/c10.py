"""C10 - declaration blocks obey the ordered-multimap-with-cascade model (DESIGN section 6, C10; Appendix A4).

Lock-step reference model: every public call on a real CSSStyleDeclaration / CSSVariablesDeclaration is mirrored on a
small list/dict model; after each call all observers of the real object are compared with the model.  Plus the
exhaustive DOM-name <-> CSS-name sweep over every known property."""

import xml.dom

from engine import core
from models.scan import decode

PROPERTY = 'C10'
LEVEL = 'exploration'
LEVEL_TEXT = (
    'Lock-step reference model over random operation histories (set, add-duplicate, remove, item assignment/deletion, attribute-style '
    'access, text replacement, Property objects, normalize on/off) with names differing by case and escapes and priorities in every '
    'spelling; all observers compared after every step. The DOM-name mapping is checked exhaustively for every known property name; the '
    'variables block runs under its own dict model.'
)
LEVEL_NOTE = 'trusted: the 60-line list-of-entries model (A4); value texts are canonicalised by one fresh PropertyValue (value formatting is C18 business)'
TECHNIQUE = 'runtime monitoring: reference model in lock-step over random operation histories + exhaustive name sweep'
DESIGN_REF = 'DESIGN.md section 6, C10; Appendix A4'
RULE = (
    'histories of 3-14 operations from 11 operation kinds over 10 name spellings x 16 values x 5 priority spellings; '
    'distinct_nontrivial = distinct (model state shape, operation kind) pairs reached, where the state shape is the multiset pattern of '
    'duplicate names and priorities; the DOM-name sweep is exhaustive over cssutils.profile.knownNames'
)
EXHAUSTIVE = {'quick': False, 'thorough': False}
EXHAUSTIVE_NOTE = 'the DOM-name <-> CSS-name sweep enumerates every known property name'
ASSUMPTIONS = ['invalid values are rejected (raising mode) and must leave the block unchanged - judged here as part of the model']
MIN_EVENTS = {
    'quick': {'oracle.step': 60000, 'oracle.domname': 100, 'oracle.variables-step': 15000, 'histories': 6000},
    'thorough': {'oracle.step': 1500000, 'oracle.domname': 100, 'oracle.variables-step': 400000, 'histories': 200000},
}

NAMES = ['color', 'COLOR', 'Color', 'c\\olor', 'co\\lor', 'top', 'TOP', 'margin-top', 'Margin-Top', 'x-foo', 'left']
HEX_NAME = '\\63olor'  # a hex escape in a name handed to the API is a known finding: used in a small share of histories only
VALUES = ['red', 'blue', '1px', '1.5em', 'a b', '"s"', 'url(x)', '10%', '0', 'f(1, 2)', 'rgb(1, 2, 3)', '#abc', 'inherit', 'x, y', '1/2', 'green']
BAD_VALUES = ['(', 'a !', ')', '$', 'rgb(1', '1px 2px}', '{']
PRIOS = ['', '', 'important', '!important', 'IMPORTANT', '! important']


def norm(name):
    return decode(name, keep_simple=False).lower()


def literal(name):
    return decode(name).lower()


class Model:
    """A4: list of [literal name, value, priority]"""

    def __init__(self):
        self.e = []

    def effective(self, n, by_literal=False):
        key = (lambda x: x[0] == n) if by_literal else (lambda x: norm(x[0]) == n)
        found = None
        for x in reversed(self.e):
            if key(x):
                if x[2]:
                    return x
                if found is None:
                    found = x
        return found

    def names(self):
        out = []
        for x in reversed(self.e):
            if norm(x[0]) not in out:
                out.append(norm(x[0]))
        return list(reversed(out))

    def set(self, name, value, prio, normalize=True, replace=True):
        if replace:
            x = self.effective(norm(name)) if normalize else self.effective(name, by_literal=True)
            if x is not None:
                x[1], x[2] = value, prio
                return
        self.e.append([literal(name), value, prio])

    def remove(self, name, normalize=True):
        if normalize:
            x = self.effective(norm(name))
            r = x[1] if x else ''
            self.e = [y for y in self.e if norm(y[0]) != norm(name)]
        else:
            x = self.effective(name, by_literal=True)
            r = x[1] if x else ''
            self.e = [y for y in self.e if y[0] != name]
        return r

    def shape(self):
        names = self.names()
        return tuple(sorted((sum(1 for y in self.e if norm(y[0]) == n), sum(1 for y in self.e if norm(y[0]) == n and y[2])) for n in names))


def dom_name(cssname):
    parts = cssname.split('-')
    return parts[0] + ''.join(p[:1].upper() + p[1:] for p in parts[1:])


def observe(ctx, st, m, case, step, canon, feats=()):
    """compare every observer of the real block with the model; returns False on the first difference"""
    ctx.count('oracle.step')
    try:
        got_all = [(p.literalname, p.value, p.priority) for p in st.getProperties(all=True)]
        exp_all = [(x[0], x[1], 'important' if x[2] else '') for x in m.e]
        problems = []
        if got_all != exp_all:
            problems.append(('getProperties(all=True)', got_all, exp_all))
        names = m.names()
        if st.length != len(names):
            problems.append(('length', st.length, len(names)))
        if list(st.keys()) != names:
            problems.append(('keys', list(st.keys()), names))
        if [st.item(i) for i in range(len(names) + 1)] != names + ['']:
            problems.append(('item', [st.item(i) for i in range(len(names) + 1)], names + ['']))
        it = [(p.name, p.value, p.priority) for p in st]
        exp_it = []
        for n in names:
            x = m.effective(n)
            exp_it.append((n, x[1], 'important' if x[2] else ''))
        if it != exp_it:
            problems.append(('iteration', it, exp_it))
        for n in set(names) | {'color', 'top', 'nope'}:
            x = m.effective(n)
            ev, ep = (x[1], 'important' if x[2] else '') if x else ('', '')
            if st.getPropertyValue(n) != ev or st.getPropertyPriority(n) != ep or st[n] != ev:
                problems.append(('getPropertyValue/Priority ' + n, [st.getPropertyValue(n), st.getPropertyPriority(n), st[n]], [ev, ep]))
            if (n in st) != (x is not None):
                problems.append(('in ' + n, n in st, x is not None))
        # with keepAllProperties off the serialisation lists exactly the effective entry of every name
        import cssutils as _cssutils  # (the tree under test: core.import_repo() has put it first on the path)

        ser = _cssutils.ser
        ser.prefs.keepAllProperties = False
        try:
            eff_text = st.cssText
        finally:
            ser.prefs.keepAllProperties = True
        eff = type(st)(cssText=eff_text)
        got_eff = sorted((p.name, p.value, p.priority) for p in eff.getProperties(all=True))
        if got_eff != sorted(exp_it):
            problems.append(('cssText with keepAllProperties=False', got_eff, sorted(exp_it)))
        # the serialisation lists all entries in order
        fresh = type(st)(cssText=st.cssText)
        got_txt = [(p.literalname, p.value, p.priority) for p in fresh.getProperties(all=True)]
        if got_txt != exp_all:
            problems.append(('cssText', got_txt, exp_all))
    except Exception as e:
        ctx.violation('model.exception-in-observer', dict(case, failed_at=step), {'tb': core.short_tb(e)}, features=feats, site=core.raise_site(e))
        return False
    if problems:
        ctx.violation('model.lockstep', dict(case, failed_at=step), {'first': problems[0][0], 'got': problems[0][1], 'expected': problems[0][2], 'others': [p[0] for p in problems[1:]]}, features=feats)
        return False
    return True


OWNERS = ['standalone', 'standalone', 'standalone', 'style-rule', 'media-style', 'page', 'font-face', 'margin', 'parsed-initial', 'parseStyle', 'validate-off', 'log-mode', 'rule-object']
INITIAL = '/*c*/color: red; /*d*/ top: 1px !important; COLOR: blue /*e*/; x-foo: a b'
INITIAL_ENTRIES = [['color', 'red', False], ['top', '1px', True], ['color', 'blue', False], ['x-foo', 'a b', False]]


def make_block(cssutils, owner):
    """the declaration block under test, in the place a user would find one; returns (block, initial model entries, keep-alive)"""
    css = cssutils.css
    if owner == 'style-rule':
        sh = cssutils.parseString('a{}')
        return sh.cssRules[0].style, [], sh
    if owner == 'media-style':
        sh = cssutils.parseString('@media print{a{}}')
        return sh.cssRules[0].cssRules[0].style, [], sh
    if owner == 'page':
        sh = cssutils.parseString('@page :first{}')
        return sh.cssRules[0].style, [], sh
    if owner == 'font-face':
        sh = cssutils.parseString('@font-face{}')
        return sh.cssRules[0].style, [], sh
    if owner == 'margin':
        sh = cssutils.parseString('@page{@top-left{}}')
        return sh.cssRules[0].cssRules[0].style, [], sh
    if owner == 'parsed-initial':
        sh = cssutils.parseString('a{' + INITIAL + '}')
        return sh.cssRules[0].style, [list(x) for x in INITIAL_ENTRIES], sh
    if owner == 'parseStyle':
        return cssutils.parseStyle(INITIAL), [list(x) for x in INITIAL_ENTRIES], None
    if owner == 'rule-object':
        r = css.CSSStyleRule(selectorText='a')
        return r.style, [], r
    st = css.CSSStyleDeclaration()
    if owner == 'validate-off':
        st.validating = False
    return st, [], None


def run_history(ctx, cssutils, rng, canon, nops=None, ops_in=None, owner=None):
    css = cssutils.css
    if owner is None:
        owner = rng.choice(OWNERS)
    raising = owner != 'log-mode'
    core.canonical_state(cssutils, raising=raising)
    st, initial, keep = make_block(cssutils, owner)
    ctx.count('owner.' + owner)
    m = Model()
    m.e = initial
    ops = []
    case = {'kind': 'history', 'ops': ops, 'owner': owner}
    known_dom = [n for n in ('color', 'top', 'left', 'margin-top')]
    n = nops or rng.randint(3, 14)
    script = ops_in
    names = NAMES + ([HEX_NAME] * 3 if (script is None and rng.random() < 0.04) else [])
    feats = []
    for step in range(len(script) if script is not None else n):
        if script is not None:
            op = script[step]
        else:
            k = rng.choice(['set', 'set', 'set', 'add', 'remove', 'setitem', 'delitem', 'attrset', 'attrdel', 'text', 'propobj', 'set-nonorm', 'remove-nonorm', 'set-bad', 'set-empty'])
            name = rng.choice(names)
            val = rng.choice(VALUES)
            pr = rng.choice(PRIOS)
            op = [k, name, val, pr]
        ops.append(op)
        if op[1] == HEX_NAME and not feats:
            feats = ['api-name.hex-escape']
            case['features'] = feats
        k, name, val, pr = op
        prio = bool(pr)
        cval = canon[val] if val in canon else val
        ctx.count('op.' + k)
        try:
            core.canonical_state(cssutils, raising=raising)
            if k == 'set':
                st.setProperty(name, val, pr)
                m.set(name, cval, prio)
            elif k == 'add':
                st.setProperty(name, val, pr, replace=False)
                m.set(name, cval, prio, replace=False)
            elif k == 'remove':
                r = st.removeProperty(name)
                exp = m.remove(name)
                if r != exp:
                    ctx.violation('model.return-value', dict(case, failed_at=step), {'removeProperty': r, 'expected': exp}, features=feats)
                    return
            elif k == 'setitem':
                if prio:
                    st[name] = (val, 'important')
                else:
                    st[name] = val
                m.set(name, cval, prio)
            elif k == 'delitem':
                del st[name]
                m.remove(name)
            elif k == 'attrset':
                nm = rng.choice(known_dom) if script is None else name
                op[1] = nm
                setattr(st, dom_name(nm), val)
                m.set(nm, cval, False)
            elif k == 'attrdel':
                nm = rng.choice(known_dom) if script is None else name
                op[1] = nm
                delattr(st, dom_name(nm))
                m.remove(nm)
            elif k == 'text':
                # replace the whole block by the (reordered) serialisation of the model plus one entry
                entries = [list(x) for x in m.e][: 4] + [[literal(name), cval, prio]]
                if script is None:
                    rng.shuffle(entries)
                    op.append(entries)
                else:
                    entries = op[4]
                st.cssText = '; '.join('%s: %s%s' % (x[0], x[1], ' !important' if x[2] else '') for x in entries)
                m.e = [list(x) for x in entries]
            elif k == 'propobj':
                p = css.Property(name, val, pr)
                st.setProperty(p)
                m.set(name, cval, prio)
            elif k == 'set-nonorm':
                lname = literal(name)
                op[1] = lname
                if sum(1 for x in m.e if x[0] == lname) > 1:
                    # which of several same-literal-name entries an un-normalized update touches is not specified: skip
                    ops.pop()
                    continue
                st.setProperty(lname, val, pr, normalize=False)
                m.set(lname, cval, prio, normalize=False)
            elif k == 'remove-nonorm':
                lname = literal(name)
                op[1] = lname
                r = st.removeProperty(lname, normalize=False)
                exp = m.remove(lname, normalize=False)
                if r != exp:
                    ctx.violation('model.return-value', dict(case, failed_at=step), {'removeProperty(normalize=False)': r, 'expected': exp}, features=feats)
                    return
            elif k == 'set-bad':
                bad = rng.choice(BAD_VALUES) if script is None else val
                op[2] = bad
                try:
                    st.setProperty(name, bad, pr)
                    if raising:
                        ctx.violation('model.bad-value-accepted', dict(case, failed_at=step), {'value': bad, 'cssText': st.cssText})
                        return
                    ctx.count('rejections.silent')  # log mode: refused silently, the observers below see an unchanged block
                except xml.dom.DOMException:
                    ctx.count('rejections')
            elif k == 'set-empty':
                st.setProperty(name, '', pr)
                m.remove(name)
        except Exception as e:
            ctx.violation('model.exception', dict(case, failed_at=step), {'tb': core.short_tb(e)}, features=feats, site=core.raise_site(e))
            return
        ctx.seen(['S', m.shape(), k, owner])
        core.canonical_state(cssutils)
        if not observe(ctx, st, m, case, step, canon, feats):
            return
    ctx.count('histories')


# ---- variables ------------------------------------------------------------------------------------------
VNAMES = ['x', 'X', 'b-c', 'B-c', 'b-C', 'a', 'A', 'c\\olor', 'color', 'z9']


def run_variables(ctx, cssutils, rng, canon, ops_in=None):
    css = cssutils.css
    v = css.CSSVariablesDeclaration()
    m = {}  # normalized name -> value (insertion ordered)
    ops = []
    case = {'kind': 'variables', 'ops': ops}
    script = ops_in
    n = rng.randint(3, 12)
    for step in range(len(script) if script is not None else n):
        if script is not None:
            op = script[step]
        else:
            op = [rng.choice(['set', 'set', 'setitem', 'remove', 'delitem', 'text', 'get-missing']), rng.choice(VNAMES), rng.choice(VALUES)]
            if op[0] in ('set', 'setitem') and rng.random() < 0.15:
                op[2] = rng.choice([0, 0, 0.0, 2, 1.5, -1])  # numbers are taken as they are (0 is a value, not "no value")
        ops.append(op)
        k, name, val = op[:3]
        cval = canon.get(val, val) if isinstance(val, str) else {0: '0', 2: '2', 1.5: '1.5', -1: '-1'}[val]
        nn = norm(name)
        ctx.count('oracle.variables-step')
        try:
            core.canonical_state(cssutils)
            if k == 'set':
                v.setVariable(name, val)
                m[nn] = cval
            elif k == 'setitem':
                v[name] = val
                m[nn] = cval
            elif k == 'remove':
                r = v.removeVariable(name)
                exp = m.pop(nn, '')
                if r != exp:
                    ctx.violation('variables.return-value', dict(case, failed_at=step), {'removeVariable': r, 'expected': exp})
                    return
            elif k == 'delitem':
                del v[name]
                m.pop(nn, None)
            elif k == 'text':
                items = list(m.items())[:3] + [(name, cval)]
                if script is None:
                    op.append(items)
                else:
                    items = [tuple(x) for x in op[3]]
                v.cssText = '; '.join('%s: %s' % (a, b) for a, b in items)
                m = {}
                for a, b in items:
                    m[norm(a)] = b
            elif k == 'get-missing':
                if v.getVariableValue('nope-' + name) != '':
                    ctx.violation('variables.lockstep', dict(case, failed_at=step), {'what': 'missing variable has a value'})
                    return
            # observers
            keys = list(v.keys())
            problems = []
            if sorted(keys) != sorted(m):
                problems.append(('keys', keys, list(m)))
            if v.length != len(m):
                problems.append(('length', v.length, len(m)))
            if sorted(v.item(i) for i in range(v.length)) != sorted(m):
                problems.append(('item', [v.item(i) for i in range(v.length)], list(m)))
            for kname in set(m) | {'x', 'a', 'nope'}:
                if v.getVariableValue(kname) != m.get(kname, '') or (kname in v) != (kname in m):
                    problems.append(('getVariableValue ' + kname, [v.getVariableValue(kname), kname in v], [m.get(kname, ''), kname in m]))
            fresh = css.CSSVariablesDeclaration(cssText=v.cssText)
            listed = {norm(kk): fresh.getVariableValue(kk) for kk in fresh.keys()}
            if listed != dict(m):
                problems.append(('cssText lists', listed, dict(m)))
            if problems:
                ctx.violation('variables.lockstep', dict(case, failed_at=step), {'first': problems[0][0], 'got': problems[0][1], 'expected': problems[0][2]})
                return
            ctx.seen(['V', len(m), k, nn in m])
        except Exception as e:
            ctx.violation('variables.exception', dict(case, failed_at=step), {'tb': core.short_tb(e)}, site=core.raise_site(e))
            return


def domname_sweep(ctx, cssutils):
    css = cssutils.css
    names = sorted(set(cssutils.profile.knownNames))
    for i, name in ctx.share(names):
        if name.startswith('-') or not name.replace('-', '').isalnum():
            continue
        dn = dom_name(name)
        ctx.count('oracle.domname')
        ctx.count('evaluations')
        case = {'kind': 'domname', 'name': name}
        feats = ['domname.ends-in-single-capital'] if len(name.split('-')[-1]) == 1 and '-' in name else []
        try:
            core.canonical_state(cssutils)
            st = css.CSSStyleDeclaration()
            if not hasattr(type(st), dn):
                ctx.violation('domname.missing', case, {'dom': dn}, features=feats)
                continue
            st.setProperty(name, 'inherit')
            a = getattr(st, dn)
            setattr(st, dn, 'initial')
            b = st.getPropertyValue(name)
            n_entries = len(st.getProperties(all=True))
            delattr(st, dn)
            c = st.getPropertyValue(name)
            if (a, b, n_entries, c) != ('inherit', 'initial', 1, ''):
                ctx.violation('domname.equivalence', case, {'read_via_dom': a, 'css_after_dom_set': b, 'entries': n_entries, 'css_after_dom_del': c, 'cssText': st.cssText}, features=feats)
            ctx.seen('D' + name)
        except Exception as e:
            ctx.violation('domname.exception', case, {'tb': core.short_tb(e)}, features=feats, site=core.raise_site(e))


def canon_table(cssutils):
    core.canonical_state(cssutils)
    out = {}
    for v in VALUES:
        out[v] = cssutils.css.PropertyValue(v).value
    return out


def run_worker(ctx):
    cssutils, _ = core.import_repo()
    canon = canon_table(cssutils)
    quick = ctx.tier == 'quick'
    domname_sweep(ctx, cssutils)
    n = 9000 if quick else 220000
    for i in range(n):
        if not ctx.mine(i):
            continue
        ctx.count('evaluations')
        run_history(ctx, cssutils, ctx.rng('h', i), canon)
        if i < 3:
            ctx.sample({'stream': 'history', 'note': 'see replay files for full operation lists', 'index': i})
    n = 3500 if quick else 90000
    for i in range(n):
        if not ctx.mine(i):
            continue
        ctx.count('evaluations')
        run_variables(ctx, cssutils, ctx.rng('v', i), canon)
    ctx.sample({'stream': 'history', 'example_ops': [['set', 'COLOR', 'red', 'important'], ['add', 'c\\olor', 'blue', ''], ['set', 'color', 'green', ''], ['remove', '\\63olor', '', '']]})


def replay(ctx, case):
    cssutils, _ = core.import_repo()
    canon = canon_table(cssutils)
    import random

    if case.get('kind') == 'history':
        run_history(ctx, cssutils, random.Random(0), canon, ops_in=[list(o) for o in case['ops']], owner=case.get('owner', 'standalone'))
    elif case.get('kind') == 'variables':
        run_variables(ctx, cssutils, random.Random(0), canon, ops_in=[list(o) for o in case['ops']])
    elif case.get('kind') == 'domname':
        names = [case['name']]
        sub = core.Ctx(ctx.prop, ctx.tier, ctx.seed, 0, 1)
        orig = cssutils.profile.knownNames
        st = cssutils.css.CSSStyleDeclaration()
        dn = dom_name(case['name'])
        feats = ['domname.ends-in-single-capital'] if len(case['name'].split('-')[-1]) == 1 and '-' in case['name'] else []
        st.setProperty(case['name'], 'inherit')
        a = getattr(st, dn, None)
        if a != 'inherit':
            ctx.violation('domname.equivalence', case, {'read_via_dom': a}, features=feats)
