"""C09 - a stylesheet stays structurally valid under any sequence of DOM edits (DESIGN section 6, C09; Appendix A6).

Invariant at quiescent points: after every outermost public edit (accepted or rejected) the sheet satisfies the rule
order, nesting and parent-link invariants, removed objects name no container, and the serialisation reparses without
losing a rule; explicit-index insertions are additionally predicted by the top-level order model."""

from checks import domwalk as W
from engine import core

PROPERTY = 'C09'
LEVEL = 'exploration'
LEVEL_TEXT = (
    'Exhaustive histories of length <= 2 (quick) / 3 (thorough) over the operation templates from six seed sheets plus random walks of '
    '10-60 edits (insert at index, ordered add, delete, sheet/rule text replacement, encoding, namespace mapping, the same on nested '
    '@media/@page lists) with text and object arguments; after each edit the structure/parent-link invariants, the accept/reject '
    'prediction of the order model and the reparse rule count are checked.'
)
LEVEL_NOTE = 'trusted: the invariants and the order model in checks/domwalk.py (A6, from CSS 2.1 4.1.5/6 and the DOM Level 2 Style insertRule contract)'
TECHNIQUE = 'runtime monitoring: invariants at quiescent points + reference-model prediction over exhaustive short and random long edit histories'
DESIGN_REF = 'DESIGN.md section 6, C09; Appendix A6'
RULE = (
    'edit histories over 11 rule kinds x all insertion indexes x text/object arguments on sheets and nested rule lists; '
    'distinct_nontrivial = distinct (rule-type sequence of the sheet, operation, argument kind, outcome) tuples reached'
)
EXHAUSTIVE = {'quick': False, 'thorough': False}
EXHAUSTIVE_NOTE = 'histories of length <= 2 (quick) / <= 3 (thorough) over the insert/add/delete templates are enumerated exhaustively from the seed sheets'
ASSUMPTIONS = [
    'comments, unknown rules and @variables may sit anywhere except before @charset',
    'the position chosen by an ordered add is not prescribed, only validity',
    'reparse-loses-no-rule counts rules whose own serialisation is non-empty',
]
MIN_EVENTS = {'quick': {'oracle.structure': 25000, 'oracle.accept-reject': 5000, 'oracle.reparse': 20000, 'rejections': 6000, 'oracle.vanished-objects': 12000},
              'thorough': {'oracle.structure': 700000, 'oracle.accept-reject': 150000, 'oracle.reparse': 500000, 'rejections': 150000, 'oracle.vanished-objects': 40000}}


def templates():
    out = []
    for kind in W.KINDS:
        for idx in range(0, 6):
            out.append(['insert', kind, 0, idx, False])
        out.append(['add', kind, 0, False])
        out.append(['add', kind, 0, True])
    for idx in range(-1, 5):
        out.append(['delete', idx])
    out.append(['ns-set', 'n1', 'urn:n1'])
    out.append(['ns-del', 'n1'])
    out.append(['encoding', 'ascii'])
    out.append(['encoding', None])
    return out


def run_worker(ctx):
    cssutils, _ = core.import_repo()
    quick = ctx.tier == 'quick'
    tm = templates()
    # exhaustive short histories
    idx = 0
    depth = 2 if quick else 3
    import itertools

    for seed in W.SEEDS:
        for L in range(1, depth + 1):
            if L == 3:
                pool = [t for t in tm if t[0] in ('add', 'delete') or (t[0] == 'insert' and t[3] in (0, 1, 2))]
            else:
                pool = tm
            for combo in itertools.product(pool, repeat=L):
                idx += 1
                if not ctx.mine(idx):
                    continue
                if L == 3 and idx % 7:
                    continue
                w = W.Walk(ctx, cssutils, 'c09', ctx.rng('x', idx))
                w.start(seed)
                ctx.count('evaluations')
                for op in combo:
                    if not w.step([x for x in op]):
                        break
    if ctx.k == 0:
        ctx.count('exhaustive.histories-enumerated', idx)
    # random walks
    n = 2400 if quick else 40000
    for i in range(n):
        if not ctx.mine(i):
            continue
        rng = ctx.rng('w', i)
        w = W.Walk(ctx, cssutils, 'c09', rng, raising=(i % 4 != 3))
        w.start(rng.choice(W.SEEDS))
        ctx.count('evaluations')
        for _ in range(rng.randint(10, 60)):
            if not w.step():
                break
    ctx.sample({'seed': W.SEEDS[2], 'example_ops': [['add', 'namespace', 0, False], ['insert', 'import', 0, 1, True], ['delete', 0], ['ns-set', 'n1', 'urn:new']]})


def replay(ctx, case):
    cssutils, _ = core.import_repo()
    import random

    w = W.Walk(ctx, cssutils, 'c09', random.Random(0), focus=case.get('focus'), raising=case.get('raising', True))
    w.start(case['seed'])
    for op in case['ops']:
        if not w.step(list(op)):
            break
