"""C16 - selector specificity, structure and list semantics (DESIGN section 6, C16).

Construction oracle: the generator counts (0, #id, #class+#attribute, #type+#pseudo-element) itself, incl. the argument of
:not(); the real Selector must report it in every spelling, after a serialisation round trip and when attached to a
sheet, and the serialised selector must reparse to the same sequence of simple selectors and combinators.
Selector lists: lock-step model of order, all-or-nothing assignment and append-moves-to-the-end."""

import random
import xml.dom

from engine import core
from gen import sheets as G
from models import projection as P

PROPERTY = 'C16'
LEVEL = 'exploration'
LEVEL_TEXT = (
    'Selectors generated from the CSS3 selector grammar (compounds of type/universal with namespaces, id, class, attribute with all 7 '
    'operators, pseudo-classes incl. functional ones with an+b arguments, pseudo-elements in one- and two-colon form, :not(), the four '
    'combinators) are rendered in 6 spellings; specificity and the projected simple-selector sequence are compared with the construction, '
    'stand-alone, after serialise+reparse and attached to a sheet. Selector lists run against a list model over append/replace histories.'
)
LEVEL_NOTE = 'trusted: gen/sheets.py selector generator and its specificity count; models/projection.p_selector'
TECHNIQUE = 'runtime monitoring: construction oracle over generated selectors + reference model in lock-step for selector lists'
DESIGN_REF = 'DESIGN.md section 6, C16'
RULE = (
    'generated selectors x spellings {neutral, ws, ws-min, comments, case, escapes}; list histories of 2-8 append / selectorText-replace '
    'operations incl. invalid members; distinct_nontrivial = distinct projected selector skeletons (kinds of simple selectors and combinators) '
    'and distinct (list length, operation, outcome) tuples'
)
ASSUMPTIONS = [
    'pseudo-classes do not count (the property states the formula)',
    '"already present" in a list means an entry with the same serialised selectorText',
    'a/**/b is invalid, not a descendant selector: comments are only generated where white space is optional or in addition to it',
]
MIN_EVENTS = {'quick': {'oracle.selector': 24000, 'oracle.attached': 3000, 'oracle.list-step': 8000, 'rejections': 800, 'oracle.parse-list': 1100, 'mode.log': 2000, 'oracle.reassign': 1800, 'oracle.member-in-place': 1500},
              'thorough': {'oracle.selector': 550000, 'oracle.attached': 80000, 'oracle.list-step': 200000, 'rejections': 20000, 'oracle.parse-list': 22000, 'mode.log': 40000, 'oracle.reassign': 36000, 'oracle.member-in-place': 30000}}

AXES = ['neutral', 'ws', 'ws-min', 'comments', 'case', 'escapes']


def norm(x):
    if isinstance(x, (list, tuple)):
        return [norm(i) for i in x]
    if isinstance(x, dict):
        return {k: norm(v) for k, v in x.items()}
    return x


def sel_features(sel):
    feats = set()
    for x in sel:
        if isinstance(x, str):
            continue
        for p in x[1]:
            if p[0] == 'not' and p[1][0] == 'pcf':
                feats.add('selector.not.functional-pseudo')
    return feats


def skeleton(proj):
    return [t[0] if t[0] != 'comb' else t[1] for t in proj['seq']]


def judge_selector(ctx, cssutils, sel, axis, rng, nsdecl):
    css = cssutils.css
    r = G.Renderer(G.style_with(axis), rng)
    text = r.selector(sel)
    exp_obj = G.Expect([('namespace', p, u) for p, u in nsdecl])
    exp = norm(exp_obj.selector(sel))
    feats = sorted(sel_features(sel) | r.feats)
    ctx.count('evaluations')
    ctx.count('oracle.selector')
    case = {'kind': 'selector', 'text': text, 'axis': axis, 'namespaces': nsdecl, 'abstract': sel, 'features': feats}
    nsmap = {(p or ''): u for p, u in nsdecl}
    try:
        core.canonical_state(cssutils)
        s = css.Selector(selectorText=(text, nsmap) if nsmap else text)
        got = norm(P.p_selector(s))
        t1 = s.selectorText
        s2 = css.Selector(selectorText=(t1, nsmap) if nsmap else t1)
        got2 = norm(P.p_selector(s2))
        t2 = s2.selectorText
    except Exception as e:
        ctx.violation('selector.exception', case, {'tb': core.short_tb(e)}, features=feats, site=core.raise_site(e))
        return
    # written without its comments (keepComments off, also part of the minified preset) it is still the same selector
    if axis in ('comments', 'all') and got == exp:
        try:
            ctx.count('oracle.selector-without-comments')
            cssutils.ser.prefs.keepComments = False
            t_nc = s.selectorText
            cssutils.ser.prefs.useDefaults()
            s3 = css.Selector(selectorText=(t_nc, nsmap) if nsmap else t_nc)
            got3 = norm(P.p_selector(s3))
        except Exception as e:
            cssutils.ser.prefs.useDefaults()
            ctx.violation('selector.exception', dict(case, keepComments=False), {'tb': core.short_tb(e)}, features=feats, site=core.raise_site(e))
            return
        has_comment = any(t[0] == 'COMMENT' for t in cssutils.tokenize2.Tokenizer().tokenize(t_nc))
        if got3 != exp or has_comment:
            ctx.violation('selector.without-comments', dict(case, keepComments=False), {'written': t_nc, 'diff': P.diff(got3, exp)}, features=feats)
            return
    if got['specificity'] != exp['specificity']:
        ctx.violation('selector.specificity', case, {'got': got['specificity'], 'expected': exp['specificity']}, features=feats)
    elif got != exp:
        ctx.violation('selector.structure', case, {'diff': P.diff(got, exp)}, features=feats)
    elif got2 != got or t2 != t1:
        ctx.violation('selector.roundtrip', case, {'t1': t1, 't2': t2, 'diff': P.diff(got2, got)}, features=feats)
    ctx.seen(['K', skeleton(exp), axis])
    return text, exp


def judge_attached(ctx, cssutils, sel, rng, nsdecl):
    """the same selector inside a sheet: specificity and structure unchanged by attachment"""
    r = G.Renderer(G.NEUTRAL_STYLE, rng)
    text = r.selector(sel)
    exp = norm(G.Expect([('namespace', p, u) for p, u in nsdecl]).selector(sel))
    feats = sorted(sel_features(sel))
    head = ''.join('@namespace %s"%s";' % ((p + ' ') if p else '', u) for p, u in nsdecl)
    ctx.count('evaluations')
    ctx.count('oracle.attached')
    case = {'kind': 'attached', 'text': text, 'namespaces': nsdecl, 'abstract': sel, 'features': feats}
    try:
        core.canonical_state(cssutils)
        sheet = cssutils.parseString(head + text + '{top:0}')
        rules = [x for x in sheet.cssRules if x.type == x.STYLE_RULE]
        if not rules:
            ctx.violation('attached.rule-dropped', case, {'sheet': sheet.cssText.decode()}, features=feats)
            return
        s = rules[0].selectorList[0]
        got = norm(P.p_selector(s))
        # detach: a free selector built from the same text
        rule2 = cssutils.css.CSSStyleRule()
        rule2.selectorText = (text, {(p or ''): u for p, u in nsdecl}) if nsdecl else text
        got_detached = norm(P.p_selector(rule2.selectorList[0]))
        sheet2 = cssutils.parseString(head)
        sheet2.add(rule2)
        got_added = norm(P.p_selector(rule2.selectorList[0]))
        # the same selector in a free white-space spelling, through a parser that drops comments
        text_ws = G.Renderer(G.style_with('ws'), rng).selector(sel)
        case['text_ws'] = text_ws
        sheet3 = cssutils.CSSParser(parseComments=False).parseString(head + text_ws + '{top:0}')
        rules3 = [x for x in sheet3.cssRules if x.type == x.STYLE_RULE]
        got_nc = norm(P.p_selector(rules3[0].selectorList[0])) if rules3 else 'rule dropped'
    except Exception as e:
        ctx.violation('attached.exception', case, {'tb': core.short_tb(e)}, features=feats, site=core.raise_site(e))
        return
    for name, g in (('parsed-in-sheet', got), ('detached', got_detached), ('after-add', got_added), ('parsed-without-comment-parsing', got_nc)):
        if g != exp:
            ctx.violation('attached.' + name, case, {'diff': P.diff(g, exp)}, features=feats)
            return


# ---- selector lists -------------------------------------------------------------------------------------
GOOD = ['a', 'b', 'a b', 'a > b', '.c', '#i', 'a.c', 'a:hover', 'li:first-child', 'p::after', '*', 'a[href]', 'a[b="c"]', 'x y z', 'a + b', 'h1 ~ p']
BAD = ['a >', '.', '#', 'a[', 'a[b=]', ':', 'a:not(', '1a', 'a,,b', '', 'a !', 'a$', 'p|q']


def run_list_history(ctx, cssutils, rng, ops_in=None, init_in=None, mode_in=None):
    css = cssutils.css
    init = init_in if init_in is not None else [rng.choice(GOOD) for _ in range(rng.randint(1, 4))]
    ops = []
    # the error mode is part of the configuration: in log mode an invalid member is reported, not raised, and must invalidate the list all the same
    raising = mode_in if mode_in is not None else (rng.random() < 0.6)
    case = {'kind': 'list', 'init': init, 'ops': ops, 'raising': raising}
    try:
        core.canonical_state(cssutils)
        rule = css.CSSStyleRule(selectorText=', '.join(init))
        sl = rule.selectorList
    except Exception as e:
        ctx.violation('list.exception', case, {'tb': core.short_tb(e)}, site=core.raise_site(e))
        return

    def canon(t):
        return css.Selector(selectorText=t).selectorText

    model = [canon(t) for t in init]  # a parsed list text keeps duplicates (only appendSelector is constrained)
    n = rng.randint(2, 8)
    script = ops_in
    for step in range(len(script) if script is not None else n):
        if script is not None:
            op = script[step]
        else:
            k = rng.choice(['append', 'append', 'append-present', 'append-bad', 'assign', 'assign-bad', 'append-list', 'append-spelled', 'member-text', 'item-set', 'member-bad'])
            op = [k]
            if k in ('member-text', 'item-set', 'member-bad'):
                # round 8: a member changed in place - through its own text or by item assignment - is what the list holds from then on
                if not model:
                    continue
                op.append(rng.randrange(len(model)))
                op.append(rng.choice(BAD[:-1]) if k == 'member-bad' else rng.choice(GOOD + model))
            if k == 'append':
                op.append(rng.choice(GOOD))
            elif k == 'append-present':
                if not model:
                    continue
                op.append(rng.choice(model))
            elif k == 'append-spelled':
                if not model:
                    continue
                t = rng.choice(model)
                op.append(t.replace(' ', '  ').replace('>', ' > ') + ' ')
            elif k == 'append-bad':
                op.append(rng.choice(BAD[:-1] if rng.random() < 0.9 else BAD))
            elif k == 'assign':
                op.append([rng.choice(GOOD) for _ in range(rng.randint(1, 4))])
            elif k == 'assign-bad':
                parts = [rng.choice(GOOD) for _ in range(rng.randint(1, 3))] + [rng.choice([b for b in BAD if b])]
                rng.shuffle(parts)
                op.append(parts)
            elif k == 'append-list':
                op.append([rng.choice(GOOD), rng.choice(GOOD)])
        ops.append(op)
        k = op[0]
        ctx.count('oracle.list-step')
        ctx.count('evaluations')
        before = sl.selectorText
        try:
            core.canonical_state(cssutils, raising=raising)
            ctx.count('mode.raising' if raising else 'mode.log')
            outcome = 'ok'
            if k in ('append', 'append-present', 'append-spelled'):
                sl.appendSelector(op[1])
                c = canon(op[1])
                model = [m for m in model if m != c] + [c]
            elif k == 'append-bad':
                try:
                    r = sl.appendSelector(op[1])
                    if r is not None or sl.selectorText != before:
                        ctx.violation('list.invalid-accepted', dict(case, failed_at=step), {'op': op, 'after': sl.selectorText, 'before': before})
                        return
                    ctx.count('rejections')
                except xml.dom.DOMException:
                    ctx.count('rejections')
                outcome = 'rejected'
            elif k == 'append-list':
                # appending a comma separated list is rejected as a whole
                try:
                    r = sl.appendSelector(', '.join(op[1]))
                    if r is not None or sl.selectorText != before:
                        ctx.violation('list.invalid-accepted', dict(case, failed_at=step), {'op': op, 'after': sl.selectorText, 'before': before})
                        return
                    ctx.count('rejections')
                except xml.dom.DOMException:
                    ctx.count('rejections')
                outcome = 'rejected'
            elif k == 'member-text':
                sl[op[1]].selectorText = op[2]
                model[op[1]] = canon(op[2])
                ctx.count('oracle.member-in-place')
            elif k == 'item-set':
                sl[op[1]] = op[2]
                model[op[1]] = canon(op[2])
                ctx.count('oracle.member-in-place')
            elif k == 'member-bad':
                try:
                    sl[op[1]].selectorText = op[2]
                    if raising or sl.selectorText != before:
                        ctx.violation('list.invalid-accepted', dict(case, failed_at=step), {'op': op, 'after': sl.selectorText, 'before': before})
                        return
                    ctx.count('rejections')
                except xml.dom.DOMException:
                    ctx.count('rejections')
                outcome = 'rejected'
            elif k == 'assign':
                sl.selectorText = ', '.join(op[1])
                model = [canon(t) for t in op[1]]
            elif k == 'assign-bad':
                try:
                    sl.selectorText = ', '.join(op[1])
                    if raising or sl.selectorText != before:
                        ctx.violation('list.invalid-accepted', dict(case, failed_at=step), {'op': op, 'after': sl.selectorText, 'before': before})
                        return
                    ctx.count('rejections')
                except xml.dom.DOMException:
                    ctx.count('rejections')
                outcome = 'rejected'
            got = [s.selectorText for s in sl]
            problems = []
            if got != model:
                problems.append(('order/content', got, model))
            if sl.length != len(model):
                problems.append(('length', sl.length, len(model)))
            if sl.selectorText != ', '.join(model):
                problems.append(('selectorText', sl.selectorText, ', '.join(model)))
            if outcome == 'rejected' and sl.selectorText != before:
                problems.append(('rejected edit changed the list', sl.selectorText, before))
            if rule.selectorText != sl.selectorText:
                problems.append(('owner rule text', rule.selectorText, sl.selectorText))
            if problems:
                ctx.violation('list.lockstep', dict(case, failed_at=step), {'first': problems[0][0], 'got': problems[0][1], 'expected': problems[0][2]})
                return
            ctx.seen(['L', len(model), k, outcome, len(set(model)) != len(model)])
        except Exception as e:
            ctx.violation('list.exception', dict(case, failed_at=step), {'tb': core.short_tb(e)}, site=core.raise_site(e))
            return


def run_worker(ctx):
    cssutils, _ = core.import_repo()
    quick = ctx.tier == 'quick'
    n = 9500 if quick else 200000
    for i in range(n):
        if not ctx.mine(i):
            continue
        rng = ctx.rng('s', i)
        g = G.Gen(rng, namespaces=rng.random() < 0.35)
        nsdecl = []
        if g.use_ns:
            g.prefixes = {'p': 'urn:p', 'q': 'http://q.example/'}
            nsdecl = [('p', 'urn:p'), ('q', 'http://q.example/')]
            if rng.random() < 0.5:
                g.default_ns = 'urn:default'
                nsdecl.append((None, 'urn:default'))
        sel = g.selector()
        for axis in (AXES if i % 2 == 0 else [rng.choice(AXES)]):
            judge_selector(ctx, cssutils, sel, axis, ctx.rng('r', i * 10 + AXES.index(axis)), nsdecl)
        if i % 2 == 0:
            judge_attached(ctx, cssutils, sel, ctx.rng('a', i), nsdecl)
        if i < 3:
            ctx.sample({'stream': 'selector', 'text': G.Renderer(G.NEUTRAL_STYLE, random.Random(0)).selector(sel), 'expected_specificity': list(G.Expect([]).selector(sel)['specificity']) if not nsdecl else None})
    n = 2500 if quick else 60000
    for i in range(n):
        if not ctx.mine(i):
            continue
        run_list_history(ctx, cssutils, ctx.rng('l', i))
    # a Selector object that is re-assigned: after a refused text (raised or only logged) text, specificity and element are those of
    # the old selector; after an accepted one those of a fresh object
    n = 2500 if quick else 50000
    for i in range(n):
        if not ctx.mine(i):
            continue
        rng = ctx.rng('re', i)
        first = rng.choice(GOOD + ['x y z#i.c', 'a:not(.c) > b::before', 'h1.c.d[e]'])
        second = rng.choice(GOOD + [b for b in BAD if b != 'p|q'] + ['b c d +', 'x y,', 'p q[', 'a b c !', 'u v w ::'])
        raising = rng.random() < 0.5
        case = {'kind': 'reassign', 'first': first, 'second': second, 'raising': raising}
        ctx.count('oracle.reassign')
        ctx.count('evaluations')
        try:
            core.canonical_state(cssutils, raising=True)
            sel = cssutils.css.Selector(selectorText=first)
            before = (sel.selectorText, sel.specificity, sel.element)
            core.canonical_state(cssutils, raising=raising)
            try:
                sel.selectorText = second
                raised = False
            except xml.dom.DOMException:
                raised = True
            core.canonical_state(cssutils, raising=True)
            after = (sel.selectorText, sel.specificity, sel.element)
            fresh = cssutils.css.Selector(selectorText=after[0])
            problems = []
            if (after[1], after[2]) != (fresh.specificity, fresh.element):
                problems.append('specificity/element %r do not belong to the selector text %r (fresh object: %r)' % (after[1:], after[0], (fresh.specificity, fresh.element)))
            if raised and after != before:
                problems.append('rejected assignment changed the selector: %r -> %r' % (before, after))
            if problems:
                ctx.violation('selector.reassign', case, {'problems': problems, 'raised': raised})
        except Exception as e:
            ctx.violation('selector.exception', case, {'tb': core.short_tb(e)}, site=core.raise_site(e))
    n = 1500 if quick else 30000
    for i in range(n):
        if not ctx.mine(i):
            continue
        rng = ctx.rng('p', i)
        parts = [rng.choice(GOOD) for _ in range(rng.randint(1, 3))] + [rng.choice([b for b in BAD if b and b != 'p|q' and b.count('(') == b.count(')') and b.count('[') == b.count(']')])]
        rng.shuffle(parts)
        text = 'k0{left:0}' + ', '.join(parts) + '{top:0}k1{right:0}'
        case = {'kind': 'parse-list', 'text': text}
        ctx.count('oracle.parse-list')
        ctx.count('evaluations')
        try:
            core.canonical_state(cssutils, raising=False)
            sheet = cssutils.parseString(text)
            core.canonical_state(cssutils)
            got = [r.selectorText for r in sheet.cssRules if r.type == r.STYLE_RULE]
        except Exception as e:
            ctx.violation('list.exception', case, {'tb': core.short_tb(e)}, site=core.raise_site(e))
            continue
        if got != ['k0', 'k1']:
            ctx.violation('list.invalid-accepted', case, {'rules': got, 'what': 'a rule whose selector list has an invalid member must be dropped as a whole'})


def replay(ctx, case):
    cssutils, _ = core.import_repo()
    kind = case.get('kind')
    if kind == 'selector':
        nsdecl = [tuple(x) for x in case.get('namespaces', [])]
        nsmap = {(p or ''): u for p, u in nsdecl}
        exp = norm(G.Expect([('namespace', p, u) for p, u in nsdecl]).selector(case['abstract']))
        s = cssutils.css.Selector(selectorText=(case['text'], nsmap) if nsmap else case['text'])
        got = norm(P.p_selector(s))
        if got != exp:
            ctx.violation('selector.structure' if got['specificity'] == exp['specificity'] else 'selector.specificity', case, {'diff': P.diff(got, exp)}, features=case.get('features', []))
    elif kind == 'attached':
        judge_attached(ctx, cssutils, case['abstract'], random.Random(0), [tuple(x) for x in case.get('namespaces', [])])
    elif kind == 'reassign':
        import xml.dom

        core.canonical_state(cssutils, raising=True)
        sel = cssutils.css.Selector(selectorText=case['first'])
        core.canonical_state(cssutils, raising=case['raising'])
        try:
            sel.selectorText = case['second']
        except xml.dom.DOMException:
            pass
        core.canonical_state(cssutils, raising=True)
        fresh = cssutils.css.Selector(selectorText=sel.selectorText)
        if (sel.specificity, sel.element) != (fresh.specificity, fresh.element):
            ctx.violation('selector.reassign', case, {'got': [sel.specificity, sel.element], 'fresh': [fresh.specificity, fresh.element]})
    elif kind == 'list':
        run_list_history(ctx, cssutils, random.Random(0), ops_in=[list(o) for o in case['ops']], init_in=case['init'], mode_in=case.get('raising', True))
