"""Logical-time meter (DESIGN 3.2): counts PY_START events of code objects that live under $VERIF_REPO.

The count is a deterministic function of input and tree, so a bound on it is a reproducible verdict
(unlike wall-clock).  A hard budget makes the callback raise StepBudgetExceeded inside the monitored call."""
import sys

from engine import core

TOOL = sys.monitoring.PROFILER_ID


class StepBudgetExceeded(BaseException):
    pass


class Meter:
    def __init__(self):
        self.count = 0
        self.budget = None
        self.active = False
        self._prefix = core.REPO + '/'

    def install(self):
        mon = sys.monitoring
        try:
            mon.use_tool_id(TOOL, 'verif-steps')
        except ValueError:
            pass
        prefix = self._prefix

        def on_start(code, offset):
            if not code.co_filename.startswith(prefix):
                return mon.DISABLE
            self.count += 1
            if self.budget is not None and self.count > self.budget:
                b = self.budget
                self.budget = None
                raise StepBudgetExceeded(b)

        mon.register_callback(TOOL, mon.events.PY_START, on_start)
        mon.register_callback(TOOL, mon.events.PY_RESUME, on_start)
        mon.set_events(TOOL, mon.events.PY_START | mon.events.PY_RESUME)
        self.active = True

    def uninstall(self):
        mon = sys.monitoring
        mon.set_events(TOOL, 0)
        mon.free_tool_id(TOOL)
        self.active = False

    def start(self, budget=None):
        self.count = 0
        self.budget = budget

    def stop(self):
        self.budget = None
        return self.count


METER = Meter()
