#!/venv/bin/python
"""CLI of the runtime-monitoring checks.

    /venv/bin/python -B /verif/engine/run.py <ID> --tier quick|thorough
    /venv/bin/python -B /verif/engine/run.py <ID> --replay <path>

Environment: VERIF_SEED (default 0), VERIF_TIER, VERIF_REPO (default /repo), VERIF_WORKERS (default 16).

Exit codes: 0 held on everything observed (KNOWN-FINDING lines possible), 1 VIOLATION, 2 INCONCLUSIVE.
"""

from __future__ import annotations

import argparse
import importlib
import json
import os
import subprocess
import sys
import tempfile
import time

HERE = os.path.dirname(os.path.abspath(__file__))
ROOT = os.path.dirname(HERE)
if ROOT not in sys.path:
    sys.path.insert(0, ROOT)

from engine import core  # noqa: E402

KF_PATH = os.path.join(ROOT, 'known_findings.json')
EVID_DIR = os.environ.get('VERIF_EVIDENCE_DIR') or os.path.join(ROOT, 'evidence')  # (override: developer runs against scratch trees must not touch the real evidence)


def load_known(prop):
    try:
        with open(KF_PATH, encoding='utf-8') as f:
            data = json.load(f)
    except FileNotFoundError:
        return []
    return [e for e in data.get('findings', []) if e.get('property') == prop]


def kf_matches(entry, v):
    """Attribution by mechanism (DESIGN 4.3): oracle, feature tags, raise site, optional signature."""
    oracles = entry.get('oracle')
    if isinstance(oracles, str):
        oracles = [oracles]
    if v['oracle'] not in oracles:
        return False
    feats = set(v.get('features') or ())
    req = set(entry.get('requires') or ())
    allowed = req | set(entry.get('allows') or ())
    if not req <= feats or not feats <= allowed:
        return False
    site = entry.get('site')
    if site:
        vs = v.get('site') or {}
        for key in ('exc', 'file', 'func'):
            if key in site and site[key] != vs.get(key):
                return False
    sig = entry.get('sig')
    if sig is not None:
        d = v.get('detail')
        if not (isinstance(d, dict) and d.get('sig') == sig):
            return False
    return True


def worker_main(args):
    mod = importlib.import_module('checks.' + args.id.lower())
    k, n = (int(x) for x in args.worker.split('/'))
    ctx = core.Ctx(args.id, args.tier, args.seed, k, n)
    status = 'ok'
    try:
        core.import_repo()
        if k == 0:
            # canonical witnesses of the known findings of this property
            wit = {}
            for e in load_known(args.id):
                sub = core.Ctx(args.id, args.tier, args.seed, 0, 1)
                try:
                    mod.replay(sub, core.unjson(e['case']))
                    wit[e['id']] = sub.violations
                except Exception as ex:  # a witness that cannot even be replayed is reported
                    wit[e['id']] = [
                        {
                            'oracle': 'witness-replay-crashed',
                            'features': [],
                            'site': core.raise_site(ex),
                            'case': e['case'],
                            'detail': core.short_tb(ex),
                        }
                    ]
            ctx.extra['witness'] = wit
        mod.run_worker(ctx)
    except core.Inconclusive as e:
        status = 'inconclusive: %s' % e
    except BaseException as e:  # harness failure - never a verdict about the repo
        status = 'harness-error: ' + core.short_tb(e, 12)
    out = ctx.dump()
    out['status'] = status
    with open(args.out, 'w', encoding='utf-8') as f:
        json.dump(out, f)
    return 0


def replay_main(args):
    mod = importlib.import_module('checks.' + args.id.lower())
    core.import_repo()
    with open(args.replay, encoding='utf-8') as f:
        rec = json.load(f)
    ctx = core.Ctx(args.id, 'quick', args.seed, 0, 1)
    mod.replay(ctx, core.unjson(rec['case']))
    if ctx.violations:
        for v in ctx.violations:
            print('REPLAY-VIOLATION property=%s oracle=%s' % (args.id, v['oracle']))
            print(json.dumps(v['detail'], indent=1, ensure_ascii=False)[:4000])
        return 1
    print('REPLAY-HELD property=%s (the recorded case no longer violates)' % args.id)
    return 0


def parent_main(args):
    t0 = time.time()
    mod = importlib.import_module('checks.' + args.id.lower())
    prop = args.id
    nworkers = int(os.environ.get('VERIF_WORKERS', '16'))
    nworkers = max(1, min(nworkers, getattr(mod, 'MAX_WORKERS', 64)))
    env = dict(os.environ)
    env.update(PYTHONHASHSEED='0', PYTHONDONTWRITEBYTECODE='1', VERIF_REPO=core.REPO)
    env.pop('CSSUTILS_VERIF_HOOKS', None)
    tmp = tempfile.mkdtemp(prefix='verif-%s-' % prop)
    # replay files of earlier runs are stale: every run rewrites its own
    old_rep = os.path.join(EVID_DIR, 'replays', prop)
    if os.path.isdir(old_rep):
        import shutil

        shutil.rmtree(old_rep, ignore_errors=True)
    procs = []
    for k in range(nworkers):
        out = os.path.join(tmp, 'w%d.json' % k)
        cmd = [
            sys.executable, '-B', os.path.abspath(__file__), prop, '--tier', args.tier,
            '--seed', str(args.seed), '--worker', '%d/%d' % (k, nworkers), '--out', out,
        ]  # fmt: skip
        errf = open(os.path.join(tmp, 'w%d.err' % k), 'w')
        procs.append((subprocess.Popen(cmd, env=env, stdout=errf, stderr=errf, cwd=ROOT), out, errf))
    budget = getattr(mod, 'WALL_BUDGET', {'quick': 1500, 'thorough': 6 * 3600})[args.tier]
    deadline = t0 + budget
    problems = []
    results = []
    for k, (p, out, errf) in enumerate(procs):
        try:
            p.wait(timeout=max(1, deadline - time.time()))
        except subprocess.TimeoutExpired:
            p.kill()
            p.wait()
            problems.append('worker %d exceeded the wall-clock watchdog (%ds)' % (k, budget))
        errf.close()
        try:
            with open(out, encoding='utf-8') as f:
                results.append(json.load(f))
        except Exception:
            err = open(errf.name).read()[-1500:]
            problems.append('worker %d left no result (exit %s): %s' % (k, p.returncode, err))
    for r in results:
        if r['status'] != 'ok':
            problems.append(r['status'])

    # ---- merge
    counters = {}
    distinct = set()
    violations = []
    overflow = 0
    samples = []
    notes = []
    witness = {}
    extra = {}
    for r in results:
        for key, val in r['counters'].items():
            counters[key] = counters.get(key, 0) + val
        distinct.update(r['distinct'])
        violations.extend(r['violations'])
        overflow += r['viol_overflow']
        if r['counters'].get('violations.dropped-group-limit'):
            problems.append('a worker saw more than %d distinct violation groups: some were not recorded' % core.Ctx.MAX_GROUPS)
        for s in r['samples']:
            if len(samples) < 24:
                samples.append(s)
        notes.extend(r['notes'])
        ex = r.get('extra') or {}
        if 'witness' in ex:
            witness = ex.pop('witness')
        for key, val in ex.items():
            if isinstance(val, dict):
                dst = extra.setdefault(key, {})
                for kk, vv in val.items():
                    if isinstance(vv, (int, float)) and isinstance(dst.get(kk, 0), (int, float)):
                        dst[kk] = dst.get(kk, 0) + vv
                    else:
                        dst.setdefault(kk, vv)
            elif isinstance(val, list):
                extra.setdefault(key, []).extend(val[:50])
            else:
                extra.setdefault(key, val)

    known = load_known(prop)
    open_kf = [e for e in known if e.get('status') == 'open']
    lines = []
    real = []  # unattributed violations
    real_more = 0
    attributed = {}
    # witnesses
    kf_lines = []
    stale = []
    for e in known:
        vs = witness.get(e['id'])
        if vs is None:
            continue
        # a witness case also runs the other oracles of its check: what those report is judged like any violation of the run,
        # only the entry's own oracles decide whether the finding is (still / again) there
        other = [v for v in vs if v['oracle'] not in e.get('oracle', []) and v['oracle'] != 'witness-replay-crashed']
        vs = [v for v in vs if not any(v is o for o in other)]
        violations.extend(other)
        if e.get('status') == 'open':
            if vs:
                kf_lines.append('KNOWN-FINDING: property=%s %s %s' % (prop, e['id'], e.get('what', '')))
                samples.append({'known_finding': e['id'], 'witness': e['case'], 'observed': vs[0]['detail']})
            else:
                stale.append(e['id'])
        else:  # fixed: must not come back
            for v in vs:
                v = dict(v)
                v['detail'] = {'returned-fixed-finding': e['id'], 'detail': v['detail']}
                real.append(v)
    for v in violations:
        hit = None
        for e in open_kf:
            if kf_matches(e, v):
                hit = e['id']
                break
        more = v.pop('more', 0) or 0  # further violations of the same group in that worker, counted but not stored
        if hit:
            attributed[hit] = attributed.get(hit, 0) + 1 + more
        else:
            real.append(v)
            real_more += more

    # ---- replay files for unattributed violations (deduplicated by mechanism)
    viol_lines = []
    seen_mech = set()
    rep_dir = os.path.join(EVID_DIR, 'replays', prop)
    for v in real:
        mech = core.h8([v['oracle'], v['features'], v['site']])
        if mech in seen_mech and len(viol_lines) >= 3:
            continue
        if len(viol_lines) >= 25:
            break
        seen_mech.add(mech)
        os.makedirs(rep_dir, exist_ok=True)
        path = os.path.join(rep_dir, core.h8(v) + '.json')
        with open(path, 'w', encoding='utf-8') as f:
            json.dump(dict(v, property=prop, seed=args.seed, tier=args.tier), f, indent=1, ensure_ascii=False)
        viol_lines.append('VIOLATION property=%s replay=%s oracle=%s' % (prop, path, v['oracle']))

    # ---- minimum events
    unmet = {}
    for name, need in getattr(mod, 'MIN_EVENTS', {}).get(args.tier, {}).items():
        if counters.get(name, 0) < need:
            unmet[name] = [counters.get(name, 0), need]

    evaluations = counters.get('evaluations', 0)
    coverage = {
        'evaluations': int(evaluations),
        'distinct_nontrivial': len(distinct),
        'rule': getattr(mod, 'RULE', ''),
        'samples': samples[:30],
        'exhaustive': bool(getattr(mod, 'EXHAUSTIVE', {}).get(args.tier, False)),
        'counters': {k: counters[k] for k in sorted(counters)},
        'min_events': getattr(mod, 'MIN_EVENTS', {}).get(args.tier, {}),
        'min_events_unmet': unmet,
        'known_findings_printed': [ln.split()[2] for ln in kf_lines],
        'known_findings_stale': stale,
        'violations_attributed_to_known_findings': attributed,
        'unattributed_violations': len(real) + real_more + overflow,
        'workers': nworkers,
        'repo': core.REPO,
        'notes': notes[:50],
        'problems': problems,
    }
    if getattr(mod, 'EXHAUSTIVE_NOTE', None):
        coverage['exhaustive_note'] = mod.EXHAUSTIVE_NOTE
    coverage.update(extra)
    evidence = {
        'property_id': prop,
        'tier': args.tier,
        'seed': args.seed,
        'level': getattr(mod, 'LEVEL', 'exploration'),
        'coverage': coverage,
        'assumptions': list(getattr(mod, 'ASSUMPTIONS', [])),
        'wall_s': round(time.time() - t0, 2),
        'violations': len(real) + real_more + overflow,
    }
    os.makedirs(EVID_DIR, exist_ok=True)
    with open(os.path.join(EVID_DIR, prop + '.json'), 'w', encoding='utf-8') as f:
        json.dump(evidence, f, indent=1, ensure_ascii=False, sort_keys=True)

    for ln in kf_lines:
        print(ln)
    for ln in viol_lines:
        print(ln)
    try:
        import shutil

        shutil.rmtree(tmp, ignore_errors=True)
    except Exception:
        pass
    if viol_lines:
        print('FAILED property=%s unattributed_violations=%d evaluations=%d' % (prop, len(real) + real_more + overflow, evaluations))
        return 1
    if problems or unmet or evaluations == 0 or len(distinct) < 2:
        why = '; '.join(problems)[:1500] or ('minimum events not reached: %s' % unmet)
        print('INCONCLUSIVE property=%s reason=%s' % (prop, why))
        return 2
    print(
        'HELD property=%s tier=%s seed=%d evaluations=%d distinct=%d known=%d wall=%.1fs'
        % (prop, args.tier, args.seed, evaluations, len(distinct), len(kf_lines), time.time() - t0)
    )
    return 0


def main():
    ap = argparse.ArgumentParser()
    ap.add_argument('id')
    ap.add_argument('--tier', default=os.environ.get('VERIF_TIER', 'quick'), choices=['quick', 'thorough'])
    ap.add_argument('--seed', type=int, default=int(os.environ.get('VERIF_SEED', '0') or 0))
    ap.add_argument('--worker')
    ap.add_argument('--out')
    ap.add_argument('--replay')
    args = ap.parse_args()
    args.id = args.id.upper()
    if args.replay:
        return replay_main(args)
    if args.worker:
        return worker_main(args)
    return parent_main(args)


if __name__ == '__main__':
    sys.exit(main())
