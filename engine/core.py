"""Shared engine pieces: repo import, state hygiene, per-worker result collection.

Every check module in /verif/checks exposes

    PROPERTY = 'Cxx'
    def run_worker(ctx): ...        # executes the share of the case stream of worker ctx.k of ctx.n
    def replay(ctx, case): ...      # re-executes one recorded case (dict) through the same oracle
    MIN_EVENTS = {'quick': {...}, 'thorough': {...}}   # counters that must be reached, else inconclusive
    RULE = '...'                     # words for evidence.coverage.rule

The worker never decides exit codes; it records what it observed in ctx and the parent (run.py) merges,
attributes violations to known findings and writes the evidence file.
"""

from __future__ import annotations

import collections
import hashlib
import json
import os
import random
import sys
import traceback

VERIF_ROOT = os.path.dirname(os.path.dirname(os.path.abspath(__file__)))
REPO = os.path.abspath(os.environ.get('VERIF_REPO', '/repo'))


def import_repo():
    """Import cssutils/encutils from $VERIF_REPO's working tree (never from a cache)."""
    if sys.path[0] != REPO:
        sys.path.insert(0, REPO)
    sys.dont_write_bytecode = True
    import cssutils
    import encutils

    for mod in (cssutils, encutils):
        f = os.path.abspath(mod.__file__)
        if not f.startswith(REPO + os.sep):
            raise Inconclusive(f'{mod.__name__} imported from {f}, not from {REPO}')
    # the library's default logger writes to stderr; the checks attach their own handlers
    import logging

    lg = logging.getLogger('CSSUTILS')
    for hd in list(lg.handlers):
        lg.removeHandler(hd)
    lg.addHandler(logging.NullHandler())
    lg.propagate = False
    return cssutils, encutils


class Inconclusive(Exception):
    pass


def h8(obj) -> str:
    """Short stable hash used for distinct-case keys."""
    if not isinstance(obj, (bytes, str)):
        obj = json.dumps(obj, sort_keys=True, default=repr)
    if isinstance(obj, str):
        obj = obj.encode('utf-8', 'surrogatepass')
    return hashlib.blake2b(obj, digest_size=8).hexdigest()


def jsonable(x):
    if isinstance(x, bytes):
        return {'__bytes__': x.hex()}
    if isinstance(x, (list, tuple)):
        return [jsonable(i) for i in x]
    if isinstance(x, dict):
        return {str(k): jsonable(v) for k, v in x.items()}
    if isinstance(x, (set, frozenset)):
        return sorted(jsonable(i) for i in x)
    if isinstance(x, (str, int, float, bool)) or x is None:
        return x
    return repr(x)


def unjson(x):
    if isinstance(x, dict):
        if set(x) == {'__bytes__'}:
            return bytes.fromhex(x['__bytes__'])
        return {k: unjson(v) for k, v in x.items()}
    if isinstance(x, list):
        return [unjson(i) for i in x]
    return x


def raise_site(exc, repo=REPO):
    """(exception type, repo-relative file, function) of the innermost frame inside the repo.

    No line numbers: the site must survive unrelated edits of the file."""
    tb = exc.__traceback__
    site = None
    while tb is not None:
        fn = os.path.abspath(tb.tb_frame.f_code.co_filename)
        if fn.startswith(repo + os.sep):
            site = (fn[len(repo) + 1 :], tb.tb_frame.f_code.co_name)
        tb = tb.tb_next
    f, func = site if site else ('<outside-repo>', '?')
    return {'exc': type(exc).__name__, 'file': f, 'func': func}


class Ctx:
    """What a worker records. Everything here is merged by the parent."""

    MAX_PER_GROUP = 12  # witnesses kept per worker and attribution group; further ones of the same group are only counted
    MAX_GROUPS = 400
    MAX_SAMPLES = 12

    def __init__(self, prop, tier, seed, k=0, n=1):
        self.prop = prop
        self.tier = tier
        self.seed = seed
        self.k = k
        self.n = n
        self.counters = collections.Counter()
        self.distinct = set()
        self.violations = []
        self.viol_overflow = 0
        self.viol_groups = {}
        self.viol_first = {}
        self.samples = []
        self.notes = []
        self.extra = {}

    # -- case stream helpers -------------------------------------------------------------------
    def rng(self, stream, index=0):
        return random.Random(f'{self.seed}:{self.prop}:{stream}:{index}')

    def mine(self, index):
        return index % self.n == self.k

    def share(self, seq):
        """the items of an indexable/iterable sequence that belong to this worker"""
        for i, item in enumerate(seq):
            if i % self.n == self.k:
                yield i, item

    # -- recording ---------------------------------------------------------------------------------
    def count(self, name, n=1):
        self.counters[name] += n

    def seen(self, key):
        self.distinct.add(key if isinstance(key, str) and len(key) == 16 else h8(key))

    def sample(self, case, force=False):
        if force or len(self.samples) < self.MAX_SAMPLES:
            self.samples.append(jsonable(case))

    def violation(self, oracle, case, detail, features=(), site=None):
        self.counters['violations.' + oracle] += 1
        # keep a bounded number of witnesses per attribution group (oracle, features, site, sig): a flood of one (possibly
        # known) mechanism must never push a different mechanism out of the record
        sig = detail.get('sig') if isinstance(detail, dict) else None
        gk = (oracle, tuple(sorted(set(features))), json.dumps(site, sort_keys=True, default=str), repr(sig))
        n = self.viol_groups.get(gk, 0)
        self.viol_groups[gk] = n + 1
        if len(self.viol_groups) > self.MAX_GROUPS:
            self.viol_overflow += 1
            self.counters['violations.dropped-group-limit'] += 1
            return
        if n >= self.MAX_PER_GROUP:
            # counted with its group: the first witness of the group carries the number of further ones ('more'), so that they are
            # attributed (to a recorded finding or not) together with it
            self.viol_first[gk]['more'] += 1
            return
        v = {
            'oracle': oracle,
            'features': sorted(set(features)),
            'site': site,
            'case': jsonable(case),
            'detail': jsonable(detail),
        }
        if n == 0:
            v['more'] = 0
            self.viol_first[gk] = v
        self.violations.append(v)

    def note(self, text):
        if len(self.notes) < 50:
            self.notes.append(text)

    def dump(self):
        return {
            'counters': dict(self.counters),
            'distinct': sorted(self.distinct),
            'violations': self.violations,
            'viol_overflow': self.viol_overflow,
            'samples': self.samples,
            'notes': self.notes,
            'extra': jsonable(self.extra),
        }


# ---------------------------------------------------------------------------------------------------
# state hygiene (DESIGN 3.5) and the C12 sentinels that ride along in every check
# ---------------------------------------------------------------------------------------------------

_DEFAULT_PREFS = None
_PROFILE_SIG = None
_SER_ID = None


def _prefs_dict(cssutils):
    return {k: v for k, v in vars(cssutils.ser.prefs).items()}


def profile_signature(cssutils):
    p = cssutils.profile
    return (tuple(p.profiles), tuple(p.defaultProfiles or ()), len(p.knownNames))


def canonical_state(cssutils, raising=True):
    """Bring the process-wide state to the canonical one before a case."""
    import logging

    global _DEFAULT_PREFS, _PROFILE_SIG, _SER_ID
    cssutils.log.raiseExceptions = raising
    cssutils.ser.prefs.useDefaults()
    if _DEFAULT_PREFS is None:
        _DEFAULT_PREFS = _prefs_dict(cssutils)
        _PROFILE_SIG = profile_signature(cssutils)
        _SER_ID = id(cssutils.ser)
        cssutils.log.setLevel(logging.FATAL)


class Sentinels:
    """C12 global-mode sentinels around a parse-family call (DESIGN C12 (a)).

    Usage:  s = Sentinels(cssutils); ...call...; diff = s.diff()   -> list of changed items"""

    def __init__(self, cssutils):
        self.c = cssutils
        self.before = self.snap()

    def snap(self):
        c = self.c
        return {
            'raiseExceptions': c.log.raiseExceptions,
            'prefs': _prefs_dict(c),
            'ser': id(c.ser),
            'profile': profile_signature(c),
        }

    def diff(self):
        after = self.snap()
        out = []
        for k in self.before:
            if self.before[k] != after[k]:
                if k == 'prefs':
                    ch = {
                        p: (self.before[k].get(p), after[k].get(p))
                        for p in set(self.before[k]) | set(after[k])
                        if self.before[k].get(p) != after[k].get(p)
                    }
                    out.append(('prefs', jsonable(ch)))
                else:
                    out.append((k, jsonable([self.before[k], after[k]])))
        return out


class LogCapture:
    """Attach to cssutils.log to see what a call reported (level, message)."""

    def __init__(self, cssutils):
        import logging

        self.records = []
        outer = self

        class H(logging.Handler):
            def emit(self, record):
                try:
                    outer.records.append((record.levelno, record.getMessage()))
                except Exception as e:  # pragma: no cover
                    outer.records.append((record.levelno, 'unformattable: %r' % (e,)))

        self.handler = H()
        self.handler.setLevel(logging.DEBUG)
        self.cssutils = cssutils
        self.logging = logging

    def __enter__(self):
        log = self.cssutils.log
        self._old_level = log.getEffectiveLevel()
        log.setLevel(self.logging.DEBUG)
        log.addHandler(self.handler)
        return self

    def __exit__(self, *a):
        log = self.cssutils.log
        log.removeHandler(self.handler)
        log.setLevel(self._old_level)
        return False

    def errors(self):
        return [m for lv, m in self.records if lv >= self.logging.ERROR]

    def warnings(self):
        return [m for lv, m in self.records if lv >= self.logging.WARNING]


def short_tb(exc, limit=6):
    return ''.join(traceback.format_exception(type(exc), exc, exc.__traceback__)[-limit:])


class CpuBudgetExceeded(BaseException):
    """raised inside the monitored call when it used more CPU time than allowed (load-insensitive)"""


class cpu_limit:
    """Per-call CPU-time watchdog (ITIMER_VIRTUAL counts only the CPU time of this process, so a
    loaded machine cannot fire it).  The `re` engine checks for signals, so catastrophic
    backtracking is interrupted too."""

    def __init__(self, seconds):
        self.seconds = seconds

    def __enter__(self):
        import signal

        def handler(signum, frame):
            raise CpuBudgetExceeded(self.seconds)

        self._old = signal.signal(signal.SIGVTALRM, handler)
        signal.setitimer(signal.ITIMER_VIRTUAL, self.seconds)
        return self

    def __exit__(self, *a):
        import signal

        signal.setitimer(signal.ITIMER_VIRTUAL, 0)
        signal.signal(signal.SIGVTALRM, self._old)
        return False
